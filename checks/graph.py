"""C06 (and the single-threaded half of C07): Graph::run (specs/Graph.tla).

1. TLC checks the runner loop for every chain of verdict styles, every add
   order, every source length 0..MaxN: returns only at quiescence with the
   reference result, terminates (liveness under weak fairness); with
   cancellation at every step and a failing block at every (position, call):
   bounded work after cancel, the error is returned.
2. Every configuration TLC explored (exported from its terminal states) is run
   on the real Graph::run with real blocks on capacity-Cap streams; the runner's
   event trace (pass, work verdicts, eof flags, return value, sink contents,
   call counts) is validated by TLC against Graph_Trace, with the same
   invariants evaluated on the implementation's trace.
3. Binding self-test; non-vacuity (the old termination rule violates
   ReturnsRef on the model).
"""
import json, os, itertools, concurrent.futures
from lib import vlib

C06_INV = ["ReturnsQuiescent", "ReturnsRef", "TypeOK"]
C07_INV = ["CancelBounded", "ErrReturned", "NoErrWithoutFail"]


def consts(cap, maxn, chains, fix="activity", cancel="FALSE", fail="NoFail"):
    return {"Cap": cap, "MaxN": maxn, "Chains": f"<- {chains}", "Fix": f'"{fix}"',
            "MayCancel": cancel, "FailAt": f"<- {fail}"}


def write_cfg(path, c, spec, invs, props=(), extra_inv=()):
    with open(path, "w") as f:
        f.write("CONSTANTS\n")
        for k, v in c.items():
            if str(v).startswith("<-"):
                f.write(f"  {k} {v}\n")
            else:
                f.write(f"  {k} = {v}\n")
        f.write(f"SPECIFICATION {spec}\n")
        for i in list(invs) + list(extra_inv):
            f.write(f"INVARIANT {i}\n")
        for p in props:
            f.write(f"PROPERTY {p}\n")
        f.write("CHECK_DEADLOCK FALSE\n")


def model(ctx, c, invs, props, export=False):
    cfg = ctx.path("graph.cfg")
    write_cfg(cfg, c, "Spec", invs, props, ["Export"] if export else [])
    r = vlib.tlc(ctx, "MC_Graph", cfg, workers=1 if export else 8, timeout=1700)
    if r.violated or not r.ok:
        raise vlib.ToolError(f"Graph.tla violates {r.violated}:\n{r.out[-2500:]}")
    ctx.cov["states"] += r.distinct
    ctx.cov["transitions"] += r.generated
    return [json.loads(s) for s in r.lines("RUN")] if export else []


def run_real(ctx, configs, cap, tag):
    """Run configs on the real Graph in parallel chunks; return trace files."""
    nchunks = min(12, max(1, len(configs) // 40))
    chunks = [configs[i::nchunks] for i in range(nchunks)]
    files = []

    def one(i):
        cf = ctx.path(f"gcfg-{tag}-{i}.ndjson")
        tf = ctx.path(f"gtrace-{tag}-{i}.ndjson")
        with open(cf, "w") as f:
            for c in chunks[i]:
                f.write(json.dumps(c) + "\n")
        res = vlib.vh_json(["graph-run", "--configs", cf, "--out", tf], timeout=1700)
        return tf, res
    vlib.build_harness()
    with concurrent.futures.ThreadPoolExecutor(max_workers=12) as ex:
        for tf, res in ex.map(one, range(nchunks)):
            files.append(tf)
            ctx.cov["evaluations"] += res["events"]
    return files


def trace_consts(cap):
    return {"Cap": cap, "MaxN": 0, "Chains": "{}", "Fix": '"activity"', "MayCancel": "TRUE", "FailAt": "{}"}


def validate_all(ctx, files, cap, invs, what):
    def one(tf):
        return tf, vlib.validate_trace(ctx, "Graph_Trace", tf, trace_consts(cap), invariants=invs, timeout=1500)
    with concurrent.futures.ThreadPoolExecutor(max_workers=6) as ex:
        for tf, (ok, info) in ex.map(one, files):
            with open(tf) as f:
                nruns = sum(1 for l in f if '"ev":"config"' in l.replace(" ", ""))
            if ok:
                ctx.cov["traces_validated_against_impl"] += nruns
                continue
            text = " ".join(info.get("rejected", [])) + " " + " ".join(info.get("violated", []))
            sig = "trace"
            for k in ("ReturnsRef", "ReturnsQuiescent", "CancelBounded", "ErrReturned", "g_return", "g_work", "g_pass_end", "call", "cancel"):
                if k in text:
                    sig = f"{what}:{k}"
                    break
            ctx.violation(sig, f"{what}: {text[:500]}", replay_src=tf)


def self_test(ctx, tf, cap, invs):
    with open(tf) as f:
        evs = [json.loads(l) for l in f.read().splitlines()]
    idx = [i for i, e in enumerate(evs) if e["ev"] == "config"]
    evs = evs[:idx[min(len(idx) - 1, 8)]] if len(idx) > 1 else evs
    rets = [i for i, e in enumerate(evs) if e["ev"] == "g_return" and e["outcome"] == "ok"]
    works = [i for i, e in enumerate(evs) if e["ev"] == "g_work"]
    if not rets or not works:
        raise vlib.ToolError("self-test: no g_return/g_work")
    bad = json.loads(json.dumps(evs))
    bad[rets[-1]]["got"] += 1
    p1 = ctx.path("g-selftest-corrupt.ndjson")
    p2 = ctx.path("g-selftest-drop.ndjson")
    with open(p1, "w") as f:
        f.write("\n".join(json.dumps(e) for e in bad) + "\n")
    with open(p2, "w") as f:
        f.write("\n".join(json.dumps(e) for k, e in enumerate(evs) if k != works[len(works) // 2]) + "\n")
    for p in (p1, p2):
        ok, _ = vlib.validate_trace(ctx, "Graph_Trace", p, trace_consts(cap), invariants=invs)
        if ok:
            raise vlib.ToolError(f"binding self-test failed: {os.path.basename(p)} accepted")
    ctx.notes.append("binding self-test: corrupted and event-dropped runner traces rejected")


def quirk_demo(ctx):
    cfg = ctx.path("graph-quirk.cfg")
    write_cfg(cfg, consts(2, 3, "ChainsSmall", fix="none"), "Spec", ["ReturnsRef"])
    r = vlib.tlc(ctx, "MC_Graph", cfg, workers=4)
    if "violated" not in r.out:
        raise vlib.ToolError("old termination rule not detected by ReturnsRef: spec is vacuous")
    ctx.notes.append('non-vacuity: Graph.tla with Fix="none" (a pass without Again is final) violates ReturnsRef, e.g. add order [sink, source]')


def configs_from_runs(runs, cap):
    seen, out = set(), []
    for r in runs:
        key = (tuple(r["kinds"]), tuple(r["order"]), r["total"], tuple(r["fail"]))
        if key in seen:
            continue
        seen.add(key)
        out.append({"kinds": r["kinds"], "order": r["order"], "total": r["total"], "cap": cap,
                    "fail": r["fail"], "cancel": [0, 0]})
    return out


def run_c06(ctx):
    chains = "ChainsBig"
    caps = [2, 3, 4] if ctx.thorough() else [2, 3]
    last = None
    for cap in caps:
        runs = model(ctx, consts(cap, 2 * cap + 1, chains), C06_INV, ["Terminates"], export=True)
        cfgs = configs_from_runs(runs, cap)
        ctx.cov["distinct_nontrivial"] += len(cfgs)
        ctx.sample(cfgs[len(cfgs) // 2])
        files = run_real(ctx, cfgs, cap, f"c06-{cap}")
        validate_all(ctx, files, cap, C06_INV[:2], "graph")
        last = (files[0], cap)
    return last


def run_c07_st(ctx):
    """Single-threaded runner: failing block at every (position, call<=3);
    cancellation from inside every (block, call<=3)."""
    chains = "ChainsBig" if ctx.thorough() else "ChainsSmall"
    cap = 2
    model(ctx, consts(cap, 2 * cap + 1, chains, cancel="TRUE"), C07_INV + C06_INV[2:], ["Terminates"])
    runs = model(ctx, consts(cap, 2 * cap + 1, chains, fail="Fail3"), C07_INV, ["Terminates"], export=True)
    cfgs = configs_from_runs(runs, cap)
    # cancellation positions: every (block, call) of every fail-free configuration
    base = [c for c in cfgs if c["fail"][0] == 0 or True]
    seen = set()
    canc = []
    for c in base:
        key = (tuple(c["kinds"]), tuple(c["order"]), c["total"])
        if key in seen:
            continue
        seen.add(key)
        canc.append(dict(c, fail=[0, 0], cancel=[-1, 0]))   # cancelled before run()
        for b in range(1, len(c["kinds"]) + 1):
            for k in (1, 2, 3):
                canc.append(dict(c, fail=[0, 0], cancel=[b, k]))
    if not ctx.thorough():
        canc = canc[::3]
        cfgs = cfgs[::2]
    allc = cfgs + canc
    ctx.cov["distinct_nontrivial"] += len(allc)
    ctx.sample(allc[len(allc) // 3])
    ctx.sample(allc[-1])
    files = run_real(ctx, allc, cap, "c07")
    validate_all(ctx, files, cap, C07_INV + C06_INV[:2], "graph")
    return files[0], cap


def run(ctx):
    vlib.build_harness()
    last = run_c06(ctx)
    # generated graphs (diamonds, rate changers, packet stages) on the single-threaded runner
    from checks import gengraph
    graphs = gengraph.make(ctx, ["graph"], 80 if ctx.thorough() else 25, salt=6)
    gfiles = gengraph.run(ctx, graphs, "gen")
    if last and not ctx.violations:
        self_test(ctx, last[0], last[1], C06_INV[:2])
        gengraph.self_test(ctx, gfiles[0])
    quirk_demo(ctx)
    ctx.assumptions += [
        "chains of the verdict styles listed in Graph.tla (real blocks: VectorSource, harness SrcWait in the style of SigMFSource, AddConst, RationalResampler(1,1)/(1,2), VectorSink); generated graphs over the block library (Tee/Add diamonds, fan-out, Delay/Skip/RationalResampler, HdlcDeframer/VecToStream packet stages) are checked at result level against GraphSem.tla",
        "streams of capacity 2..4 samples (one page per sample) so that full/empty states are routine",
        "blocks are never dropped by Graph::run, so no stream closes during run()",
    ]
    return vlib.finish(ctx, "model_checking", extra_cov={
        "rule": "states/transitions: TLC exhaustive over chains x add orders x source lengths; distinct_nontrivial = distinct (chain, order, length) configurations run on the real Graph; traces = runs validated by TLC; evaluations = runner events",
    })


def replay(ctx, path):
    vlib.build_harness()
    try:
        whole = json.load(open(path))
        kind = whole.get("replay", {}).get("kind") if isinstance(whole, dict) else None
    except ValueError:
        kind = None     # an ndjson trace
    if kind == "gengraph":
        from checks import gengraph
        return gengraph.replay(ctx, path)
    with open(path) as f:
        e0 = json.loads(f.readline())
    cap = e0.get("cap", 2)
    ok, info = vlib.validate_trace(ctx, "Graph_Trace", path, trace_consts(cap), invariants=C06_INV[:2] + C07_INV)
    print("accepted" if ok else f"rejected: {info.get('rejected')} {info.get('violated')}")
    ctx.cleanup()
    return 0 if ok else 1
