"""C13: HDLC deframer (specs/Hdlc.tla).

1. TLC checks the deframer automaton against the independent encoder on every
   small scenario (payloads over a stuffing-heavy alphabet, two frames with
   shared or separate flags, preamble noise, every single-bit corruption,
   min/max settings, checksum on/off, single-bit repair).
2. spec -> impl: the bit string of every exported scenario is fed to the real
   HdlcDeframer block under several chunkings; TLC compares the packets with the
   automaton's (trace validation, oracle H!Deframe evaluated on the logged bits).
3. impl -> spec: random payloads 0..max+2 bytes (random and 0xFF/0x7E/0x3F
   runs), random preamble, single and double bit flips, random chunkings;
   packets compared with the automaton on the same bits, and clean frames
   inside the limits must all be delivered (checked in Python against the
   payload list, encoder written independently here).
"""
import json, os, random
from lib import vlib
from checks import blocks


def crc16_x25(data):
    crc = 0xFFFF
    for b in data:
        for i in range(8):
            bit = (b >> i) & 1
            if (crc ^ bit) & 1:
                crc = (crc >> 1) ^ 0x8408
            else:
                crc >>= 1
    return crc ^ 0xFFFF


FLAG = [0, 1, 1, 1, 1, 1, 1, 0]


def body_bits(payload):
    c = crc16_x25(payload)
    bits = []
    ones = 0
    for b in list(payload) + [c & 0xFF, c >> 8]:
        for i in range(8):
            v = (b >> i) & 1
            bits.append(v)
            if v:
                ones += 1
                if ones == 5:
                    bits.append(0)
                    ones = 0
            else:
                ones = 0
    return bits


def model(ctx, alphabet, maxlen, maxnoise, export, stride=1, pick=0):
    cfg = ctx.path("hdlc.cfg")
    with open(cfg, "w") as f:
        f.write(f"CONSTANTS\n Alphabet = {{{', '.join(map(str, alphabet))}}}\n MaxLen = {maxlen}\n MaxNoise = {maxnoise}\n"
                f' Kinds = {{"clean", "flip", "nocheck"}}\n Stride = {stride}\n Pick = {pick}\nSPECIFICATION Spec\n'
                + ("INVARIANT Export\n" if export else "INVARIANT ScenarioOk\n") + "CHECK_DEADLOCK FALSE\n")
    r = vlib.tlc(ctx, "MC_Hdlc", cfg, workers=6 if export else 14, timeout=3400, xmx="12g")
    if r.violated or not r.ok:
        raise vlib.ToolError(f"Hdlc.tla: deframer automaton violates the property on the model: {r.violated}\n{r.out[-2500:]}")
    if not export:
        ctx.cov["states"] += r.distinct
        ctx.cov["transitions"] += r.generated
    return [json.loads(s) for s in r.lines("SCEN")]


def spec_for(gid, bits, cfg, mode, seed, extra=None):
    params = {"min": cfg["min"], "max": cfg["max"], "fix_bits": cfg["fix"], "checksum": cfg["check"]}
    d = {"block": "HdlcDeframer", "params": params, "data": [bits], "len": len(bits), "kind": "bits", "tags": "none",
         "stream_bytes": 4096, "gid": gid, "data_seed": 1, "log_inputs": True, "tagmap": blocks.NONE, "sync": False,
         "fn": {"kind": "hdlc", "p": {"min": cfg["min"], "max": cfg["max"], "check": cfg["check"], "fix": cfg["fix"]}},
         "mode": mode, "seed": seed, "id": f"{gid}:{mode}{seed}"}
    if mode == "random":
        d["steps"] = 30 + len(bits) // 3
        d["style"] = seed % 3
    if extra:
        d.update(extra)
    return d


def random_inputs(ctx, n):
    rnd = random.Random(ctx.seed * 9176 + 5)
    out = []
    for k in range(n):
        mx = rnd.choice([6, 12, 30])
        mn = rnd.choice([0, 1, 2, 3, 5])
        cfg = {"min": mn, "max": mx, "check": rnd.random() < 0.85, "fix": rnd.random() < 0.4}
        # preceding noise: random bits, or runs of ones (idle line / abort patterns) of every
        # length around a flag's six ones, optionally ended by a zero
        style = rnd.random()
        if style < 0.45:
            bits = [rnd.randint(0, 1) for _ in range(rnd.choice([0, 0, 3, 9, 17]))]
        elif style < 0.8:
            bits = [rnd.randint(0, 1) for _ in range(rnd.choice([0, 0, 2]))] + [1] * rnd.randint(4, 9) + ([0] if rnd.random() < 0.5 else [])
        else:
            bits = [0] * rnd.randint(1, 9)
        frames = []
        nf = rnd.randint(1, 4)
        # usually a separate flag closes the noise; sometimes the first frame's own opening flag
        # follows the noise directly (then only the comparison with the automaton applies: noise
        # may merge with that flag)
        single = bool(bits) and rnd.random() < 0.4
        if bits and not single:
            bits += FLAG
        for i in range(nf):
            ln = rnd.choice([0, 1, 2, 3, mx - 3, mx - 2, mx, mx + 2, rnd.randint(0, mx + 2)])
            ln = max(0, ln)
            style = rnd.random()
            if style < 0.4:
                payload = [rnd.choice([0xFF, 0x7E, 0x3F, 0x00, 0xAA]) for _ in range(ln)]
            else:
                payload = [rnd.randint(0, 255) for _ in range(ln)]
            fb = body_bits(payload)
            flips = []
            r = rnd.random()
            if r < 0.25 and fb:
                flips = [rnd.randrange(len(fb))]
            elif r < 0.35 and len(fb) > 1:
                flips = rnd.sample(range(len(fb)), 2)
            for p in flips:
                fb[p] ^= 1
            shared = i > 0 and rnd.random() < 0.5
            if not shared:
                bits += FLAG
            bits += fb + FLAG
            frames.append({"payload": payload, "flips": flips, "shared": shared})
        if single:
            for x in frames:
                x["flips"] = x["flips"] or [-1]     # excludes the scenario from the Python clean-delivery check
        out.append((bits, cfg, frames))
    return out


def clean_delivery_check(ctx, tf):
    """For scenarios whose frames are all clean: every payload strictly inside the
    limits must be among the delivered packets (Python-side, independent encoder)."""
    n = 0
    with open(tf) as f:
        cur, got = None, []
        for l in f:
            e = json.loads(l)
            if e["ev"] == "scenario":
                cur, got = e, []
            elif e["ev"] == "work" and cur is not None:
                flat = e["outn"][0]
                pk = None
                for v in flat:
                    if v == -1:
                        pk = []
                        got.append(pk)
                    elif pk is not None:
                        pk.append(v)
            elif e["ev"] == "final" and cur is not None and cur.get("frames"):
                fr = cur["frames"]
                p = cur["params"]
                if all(not x["flips"] for x in fr) and p.get("checksum", True):
                    # a frame of exactly max_size bytes is a boundary case: the code drops it
                    # while reading its closing flag, so a frame sharing that flag is lost too
                    want = [x["payload"] for i, x in enumerate(fr)
                            if p["min"] <= len(x["payload"]) + 2 <= p["max"] - 1
                            and not (x["shared"] and i > 0 and len(fr[i - 1]["payload"]) + 2 == p["max"])]
                    it = iter(got)
                    if not all(any(w == g for g in it) for w in want):
                        ctx.violation("HdlcDeframer:clean_frame_lost",
                                      f"clean frames {want} not all delivered in order, got {got}; params {p}",
                                      replay_obj={"scenario": cur})
                    n += 1
    return n


def run(ctx):
    vlib.build_harness()
    th = ctx.thorough()
    rnd = random.Random(ctx.seed)
    if th:
        # (4 byte values, payload <= 3, noise <= 3 took about 25 minutes on an idle machine and ran into
        # the time limit on a loaded one: the large alphabet with payload <= 2, the small one with <= 3)
        model(ctx, [0, 255, 126, 63], 2, 2, False)
        model(ctx, [0, 255, 126], 3, 2, False)
        stride, nrand, nchunk = 7, 1500, 3
    else:
        model(ctx, [0, 255, 126], 2, 2, False)
        stride, nrand, nchunk = 127, 200, 2
    pick = model(ctx, [0, 255, 126], 2, 2, True, stride, rnd.randrange(stride))
    if not pick:
        raise vlib.ToolError("no scenarios exported from MC_Hdlc")
    specs = []
    gid = 0
    for s in pick:
        gid += 1
        specs.append(spec_for(gid, s["bits"], s["cfg"], "ref", 1))
        for c in range(nchunk):
            specs.append(spec_for(gid, s["bits"], s["cfg"], "random", ctx.seed * 17 + c))
    ctx.sample({"scenario": {k: pick[0][k] for k in ("kind", "cfg", "expect")}, "bits": "".join(map(str, pick[0]["bits"]))})
    for bits, cfg, frames in random_inputs(ctx, nrand):
        gid += 1
        ex = {"frames": frames}
        specs.append(spec_for(gid, bits, cfg, "ref", 1, ex))
        specs.append(spec_for(gid, bits, cfg, "random", ctx.seed * 31 + gid, ex))
    ctx.sample({"random": {"cfg": specs[-1]["params"], "frames": specs[-1].get("frames"), "nbits": len(specs[-1]["data"][0])}})
    ctx.cov["distinct_nontrivial"] += gid
    files = blocks.run_bench(ctx, specs, "C13")
    # the bench header does not carry `frames`; re-attach by id for the Python-side delivery check
    frames_by_id = {s["id"]: s.get("frames") for s in specs}
    for tf in files:
        out = []
        with open(tf) as f:
            for l in f:
                e = json.loads(l)
                if e["ev"] == "scenario":
                    e["frames"] = frames_by_id.get(e.get("id")) or []
                out.append(json.dumps(e, separators=(',', ':')))
        with open(tf, "w") as f:
            f.write("\n".join(out) + "\n")
    fails = blocks.judge(ctx, files)
    blocks.report(ctx, fails, {"fn_out", "panic", "err", "prefix", "final_out", "unsettled", "constructor", "window", "leak", "spin"})
    nclean = sum(clean_delivery_check(ctx, tf) for tf in files)
    ctx.notes.append(f"{nclean} clean random scenarios checked for delivery of every in-range payload against an independent encoder")
    if not ctx.violations:
        blocks.self_test(ctx, files[0])
    ctx.assumptions += [
        "size limits are read as limits on the frame including its 2 CRC bytes; frames of exactly max_size bytes are a boundary case left open (the code drops them)",
        "after preamble noise a frame is preceded by at least two flags (noise may merge with the first)",
        "conformance of the real block to the automaton is sampled (exported scenarios with a stride, random frames), the automaton itself is checked exhaustively on the small scenario space",
    ]
    return vlib.finish(ctx, "model_checking", extra_cov={
        "rule": "states = scenarios (staged) on which TLC checked the automaton against the encoder; traces = bit strings fed to the real HdlcDeframer (whole and chunked) and compared by TLC with the automaton's packets; distinct_nontrivial = distinct bit strings",
    })


def replay(ctx, path):
    return blocks.replay(ctx, path)
