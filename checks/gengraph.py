"""Generated graphs for C05 / C06 (specs/GraphSem.tla, GraphSem_Trace.tla):
chains, tee/merge diamonds, fan-out, rate changers and packet stages over real
library blocks, run by the real runners; TLC computes the denotation of each
graph (composition of the BlockFns definitions) and compares every sink."""
import json, random, concurrent.futures
from lib import vlib
from checks import blocks
from checks.hdlc import body_bits, FLAG

LABELS = {"sink_differs_from_reference", "deadlock", "no_termination", "run_failed", "thread_left", "sink_missing", "rejected"}


def N(kind, ins=(), **p):
    return {"kind": kind, "p": p or {"_": 0}, "ins": [list(i) for i in ins]}


def gen(rnd, family):
    nodes = []

    def add(kind, ins=(), **p):
        nodes.append(N(kind, ins, **p))
        return len(nodes)
    sb = 4096
    if family == "big_chain":
        cap = rnd.choice([1, 1, 2, 3, 4])
        sb = cap * 4096
        n = rnd.choice([0, 1, cap, cap + 1, 2 * cap + 1, 3 * cap + 2, rnd.randint(0, 14)])
        cur = add("src_big", data=list(range(1, n + 1)))
        for _ in range(rnd.randint(0, 3)):
            k = rnd.choice(["addconst", "resample", "delay", "skip", "addconst"])
            if k == "addconst":
                cur = add(k, [(cur, 1)], val=rnd.choice([1000, 7]))
            elif k == "resample":
                i, d = rnd.choice([(1, 2), (2, 1), (3, 2), (2, 3), (1, 1), (1, 3)])
                cur = add(k, [(cur, 1)], interp=i, deci=d)
            elif k == "delay":
                cur = add(k, [(cur, 1)], delay=rnd.randint(0, 3))
            else:
                cur = add(k, [(cur, 1)], skip=rnd.randint(0, 3))
        add("sink", [(cur, 1)])
    elif family == "big_diamond":
        cap = rnd.choice([1, 2, 3, 4])
        sb = cap * 4096
        n = rnd.choice([0, 1, cap, 2 * cap + 1, 3 * cap + 2, rnd.randint(0, 12)])
        s = add("src_big", data=list(range(1, n + 1)))
        if rnd.random() < 0.4:
            s = add("addconst", [(s, 1)], val=5)
        t = add("tee", [(s, 1)])
        a, b = (t, 1), (t, 2)
        for _ in range(rnd.randint(0, 2)):
            a = (add("addconst", [a], val=100), 1)
        for _ in range(rnd.randint(0, 2)):
            b = (add("addconst", [b], val=10000), 1)
        if rnd.random() < 0.4:
            # one branch drains in small pieces: the two outputs of the tee fill unevenly
            if rnd.random() < 0.5:
                a = (add("slow", [a], ms=0, max=1), 1)
            else:
                b = (add("slow", [b], ms=0, max=rnd.choice([1, 2])), 1)
        if rnd.random() < 0.65:
            m = add("add", [a, b] if rnd.random() < 0.5 else [b, a])
            if rnd.random() < 0.3:
                m = add("resample", [(m, 1)], interp=1, deci=2)
            add("sink", [(m, 1)])
        else:
            add("sink", [a])
            add("sink", [b])
    elif family == "tee_uneven":
        # fan-out whose branches drain at different paces and in pieces smaller than a stream, with a
        # source longer than a stream: the outputs of the tee are filled to different levels
        cap = rnd.choice([2, 3, 4, 4])
        sb = cap * 4096
        n = rnd.randint(2 * cap + 1, 4 * cap + 2)
        s = add("src_big", data=list(range(1, n + 1)))
        t = add("tee", [(s, 1)])
        a, b = (t, 1), (t, 2)
        if rnd.random() < 0.5:
            a, b = b, a
        if rnd.random() < 0.5:
            a = (add("addconst", [a], val=100), 1)
        b = (add("slow", [b], ms=0, max=rnd.choice([1, 1, 2])), 1)
        if rnd.random() < 0.3:
            b = (add("addconst", [b], val=10000), 1)
        add("sink", [a])
        add("sink", [b])
    elif family == "two_src":
        # two finite sources (often of equal length, so that they finish in the same pass) merged
        # by Add, blocks added in any order
        cap = rnd.choice([1, 2, 3, 4])
        sb = cap * 4096
        n1 = rnd.choice([0, 1, cap, cap + 1, 2 * cap + 1, rnd.randint(0, 9)])
        n2 = n1 if rnd.random() < 0.6 else rnd.choice([0, 1, cap, n1 + 1, rnd.randint(0, 9)])
        a = (add("src_big", data=list(range(1, n1 + 1))), 1)
        b = (add("src_big", data=[100 * k for k in range(1, n2 + 1)]), 1)
        if rnd.random() < 0.3:
            a = (add("addconst", [a], val=7), 1)
        m = add("add", [a, b])
        if rnd.random() < 0.3:
            m = add("addconst", [(m, 1)], val=1000)
        add("sink", [(m, 1)])
    elif family == "pkt":
        bits = []
        for _ in range(rnd.randint(2, 6)):
            bits += FLAG
        frames = rnd.randint(0, 5)
        for _ in range(frames):
            payload = [rnd.choice([0xFF, 0x7E, 0, rnd.randint(0, 255)]) for _ in range(rnd.randint(1, 9))]
            bits += body_bits(payload) + FLAG * rnd.randint(1, 3)
        if rnd.random() < 0.3:
            bits += [rnd.randint(0, 1) for _ in range(rnd.randint(1, 20))]
        cur = add("src_u8", data=bits)
        if rnd.random() < 0.4:
            cur = add("xorconst", [(cur, 1)], val=1)
            cur = add("xorconst", [(cur, 1)], val=1)
        two = rnd.random() < 0.3
        if two:
            t = add("tee", [(cur, 1)])
            ends = [(t, 1), (t, 2)]
        else:
            ends = [(cur, 1)]
        for e in ends:
            h = add("hdlc", [e], min=1, max=60)
            if rnd.random() < 0.5:
                v = add("v2s", [(h, 1)])
                add("sink", [(v, 1)])
            else:
                add("sink", [(h, 1)])
    elif family == "u8_rate":
        sb = rnd.choice([4096, 4096, 8192, 0])
        n = rnd.choice([0, 1, 4095, 4096, 4097, 9000, 13000, rnd.randint(0, 6000)])
        cur = add("src_u8", data=[rnd.randint(0, 255) for _ in range(n)])
        for _ in range(rnd.randint(1, 3)):
            k = rnd.choice(["resample", "xorconst", "delay", "skip", "resample"])
            if k == "resample":
                i, d = rnd.choice([(3, 2), (2, 3), (1, 4), (5, 3), (1, 1), (2, 1)])
                cur = add(k, [(cur, 1)], interp=i, deci=d)
            elif k == "xorconst":
                cur = add(k, [(cur, 1)], val=rnd.randint(1, 255))
            elif k == "delay":
                cur = add(k, [(cur, 1)], delay=rnd.choice([0, 1, 100, 5000]))
            else:
                cur = add(k, [(cur, 1)], skip=rnd.choice([0, 1, 100, 5000]))
        if rnd.random() < 0.3:
            t = add("tee", [(cur, 1)])
            x = add("xorconst", [(t, 1)], val=255)
            m = add("xor", [(x, 1), (t, 2)])
            add("sink", [(m, 1)])
        else:
            add("sink", [(cur, 1)])
    elif family == "bg_slow":
        # another graph runs in the process (always with "bg") and an idle side chain with a slow
        # block (fed by an empty source) keeps every pass of the runner open for milliseconds after
        # the main chain has moved its data
        cap = rnd.choice([1, 2, 3])
        sb = cap * 4096
        n = rnd.choice([1, cap, cap + 1, 2 * cap + 1])
        src = add("src_big", data=list(range(1, n + 1)))
        cur = src
        if rnd.random() < 0.5:
            cur = add("addconst", [(cur, 1)], val=7)
        sink = add("sink", [(cur, 1)])
        e = add("src_big", data=[])
        sl = add("slow", [(e, 1)], ms=rnd.choice([2, 3, 4]))
        sink2 = add("sink", [(sl, 1)])
        main = list(range(src, sink + 1))
        if rnd.random() < 0.7:
            main = [sink] + main[:-1]            # sink first: the source's last commit ends a pass
        elif rnd.random() < 0.5:
            rnd.shuffle(main)
        return {"nodes": nodes, "order": main + [e, sink2, sl], "stream_bytes": sb, "family": family}
    elif family == "float":
        n = rnd.choice([0, 1, 5, 6, 11, 40])
        data = [rnd.randint(-3, 3) for _ in range(n)]
        chunks = [rnd.randint(1, 7) for _ in range(12)]
        if rnd.random() < 0.4:
            # complex FFT filter(s) on real-valued data
            cur = add("src_c", data=data, chunks=chunks)
            for _ in range(rnd.randint(1, 2)):
                cur = add("fftfiltc", [(cur, 1)], taps=[rnd.randint(-2, 2) or 1 for _ in range(rnd.choice([1, 2, 3, 4]))])
            add("sink", [(cur, 1)])
            order = list(range(1, len(nodes) + 1))
            rnd.shuffle(order)
            return {"nodes": nodes, "order": order, "stream_bytes": sb, "family": family}
        cur = add("src_f", data=data, chunks=chunks)
        for _ in range(rnd.randint(1, 2)):
            if rnd.random() < 0.5:
                cur = add("fftfiltf", [(cur, 1)], taps=[rnd.randint(-2, 2) or 1 for _ in range(rnd.choice([1, 2, 3, 4]))])
            else:
                cur = add("firf", [(cur, 1)], taps=[rnd.randint(-2, 2) or 1 for _ in range(rnd.choice([1, 2, 3]))], deci=rnd.choice([1, 2, 3]))
        add("sink", [(cur, 1)])
    else:   # bits: nrzi / descrambler chain
        n = rnd.choice([0, 1, 17, 100, 5000])
        cur = add("src_u8", data=[rnd.randint(0, 1) for _ in range(n)])
        for _ in range(rnd.randint(1, 3)):
            k = rnd.choice(["nrzi", "descramble"])
            cur = add(k, [(cur, 1)], **({"mask": 0x21, "seed": 0, "len": 16} if k == "descramble" else {}))
        add("sink", [(cur, 1)])
    order = list(range(1, len(nodes) + 1))
    rnd.shuffle(order)
    return {"nodes": nodes, "order": order, "stream_bytes": sb, "family": family}


FAMILIES = ["big_chain", "big_diamond", "tee_uneven", "pkt", "u8_rate", "bits", "float", "two_src"]


def fixed_graphs():
    """Graphs that are part of every run whatever the seed: each is the smallest
    setting of a situation that the random families only meet by chance."""
    gs = []
    # an interpolating resampler whose output window ends in the middle of the copies of a sample
    gs.append(({"family": "fix_resample", "stream_bytes": 3 * 4096, "nodes": [N("src_big", data=list(range(1, 8))), N("resample", [(1, 1)], interp=2, deci=1), N("sink", [(2, 1)])]}, 4))
    gs.append(({"family": "fix_resample", "stream_bytes": 2 * 4096, "nodes": [N("src_big", data=list(range(1, 9))), N("resample", [(1, 1)], interp=3, deci=2), N("sink", [(2, 1)])]}, 4))
    gs.append(({"family": "fix_resample", "stream_bytes": 4096, "nodes": [N("src_big", data=list(range(1, 8))), N("resample", [(1, 1)], interp=3, deci=1), N("sink", [(2, 1)])]}, 4))
    # a block that waits for the rest of a batch (FftFilter: 5 samples per batch with 3 taps) while
    # its writer delivers the last, batch-completing instalment and goes away: the interleaving
    # that matters is rare under random schedules, hence the many seeds
    gs.append(({"family": "fix_fft_batch", "stream_bytes": 4096, "nodes": [N("src_c", data=[1, 2, 3, -1, 2, 1, 3, -2, 1, 2], chunks=[3, 3, 4]), N("fftfiltc", [(1, 1)], taps=[1, 2, 3]), N("sink", [(2, 1)])]}, 240))
    # fan-out with one reader that takes a sample at a time
    gs.append(({"family": "fix_tee_uneven", "stream_bytes": 4 * 4096, "nodes": [N("src_big", data=list(range(1, 14))), N("tee", [(1, 1)]), N("sink", [(2, 1)]), N("slow", [(2, 2)], ms=0, max=1), N("sink", [(4, 1)])]}, 8))
    # a source with no data at all in front of a Delay longer than a stream: the zeros are the
    # whole output (seed 5 generated this graph and found Delay's eof() defect; now in every run)
    gs.append(({"family": "fix_empty_delay", "stream_bytes": 4096, "nodes": [N("src_big", data=[]), N("delay", [(1, 1)], delay=2), N("skip", [(2, 1)], skip=1), N("sink", [(3, 1)])]}, 4))
    gs.append(({"family": "fix_empty_delay", "stream_bytes": 2 * 4096, "nodes": [N("src_big", data=[]), N("delay", [(1, 1)], delay=5), N("sink", [(2, 1)])]}, 4))
    for g, _ in gs:
        g["order"] = list(range(1, len(g["nodes"]) + 1))
    return gs


def make(ctx, runners, per_family, seeds_per_graph=1, salt=0):
    rnd = random.Random(ctx.seed * 104729 + salt)
    out = []
    k = 0
    # with another graph running in the process and a slow block (OS-thread runners only)
    for _ in range(max(4, per_family // 4)):
        g = gen(rnd, "bg_slow")
        for runner in runners:
            if runner in ("graph", "mt"):
                k += 1
                out.append(dict(g, runner=runner, seed=1, bg=True, id=f"{k}:bg_slow/{runner}+bg"))
    for fam in FAMILIES:
        for _ in range(per_family):
            g = gen(rnd, fam)
            for runner in runners:
                reps = seeds_per_graph if runner == "mtc" else 1
                if runner == "mtc" and fam in ("u8_rate",) and len(g["nodes"][0]["p"].get("data", [])) > 5000:
                    reps = 1
                for r in range(reps):
                    k += 1
                    d = dict(g, runner=runner, seed=rnd.randrange(1 << 30), id=f"{k}:{fam}/{runner}")
                    if runner in ("graph", "mt") and k % 3 == 0:
                        d["bg"] = True      # a second, never-ending graph runs in the process meanwhile
                        d["id"] += "+bg"
                    out.append(d)
    frnd = random.Random(ctx.seed * 7919 + salt)
    for gi, (g, nseeds) in enumerate(fixed_graphs()):
        for runner in runners:
            for r in range(nseeds if runner == "mtc" else 1):
                k += 1
                out.append(dict(g, runner=runner, seed=frnd.randrange(1 << 30), id=f"{k}:{g['family']}{gi}/{runner}"))
    return out


def run(ctx, graphs, tag):
    chunks = [graphs[i::12] for i in range(12) if graphs[i::12]]

    def one(i):
        gf, of = ctx.path(f"{tag}-g{i}.ndjson"), ctx.path(f"{tag}-t{i}.ndjson")
        with open(gf, "w") as f:
            for g in chunks[i]:
                f.write(json.dumps(g) + "\n")
        res = vlib.vh_json(["gengraph-run", "--graphs", gf, "--out", of], timeout=3000)
        return of, res
    files = []
    with concurrent.futures.ThreadPoolExecutor(max_workers=12) as ex:
        for of, res in ex.map(one, range(len(chunks))):
            files.append(of)
            ctx.cov["traces_validated_against_impl"] += res["graphs"]
    by_id = {g["id"]: g for g in graphs}
    fails = blocks.judge(ctx, files, mod="GraphSem_Trace")
    for label, h, ev, tf, hdr_line, evno in fails:
        g = by_id.get(h.get("id"), {})
        kinds = "-".join(n["kind"] for n in g.get("nodes", []))
        sig = f"gengraph:{g.get('family')}:{h.get('runner')}:{label}"
        ctx.violation(sig, f"{label}: graph {kinds} order {g.get('order')} stream_bytes {g.get('stream_bytes')} runner {h.get('runner')} seed {g.get('seed')}: "
                           f"{json.dumps({k: (v if not isinstance(v, list) or len(v) < 30 else v[:30] + ['...']) for k, v in ev.items()})[:300]}",
                      replay_obj={"kind": "gengraph", "graph": g})
    ctx.cov["distinct_nontrivial"] += len(graphs)
    ctx.sample({k: v for k, v in graphs[len(graphs) // 2].items() if k in ("family", "runner", "order", "stream_bytes")} |
               {"kinds": [n["kind"] for n in graphs[len(graphs) // 2]["nodes"]]})
    return files


def self_test(ctx, tf):
    """Binding: a sink with one sample altered / dropped, and a run that did not end, must be rejected."""
    with open(tf) as f:
        lines = [json.loads(l) for l in f]
    si = [i for i, e in enumerate(lines) if e["ev"] == "sink" and len(e["data"]) >= 2]
    di = [i for i, e in enumerate(lines) if e["ev"] == "done"]
    if not si or not di:
        raise vlib.ToolError("gengraph self-test: no sink with data")
    a = [dict(e) for e in lines]
    a[si[0]]["data"] = list(a[si[0]]["data"][:-1])
    b = [dict(e) for e in lines]
    b[di[0]]["end"] = "deadlock"
    for name, ls, want in (("short", a, "sink_differs_from_reference"), ("deadlock", b, "deadlock")):
        p = ctx.path(f"gg-selftest-{name}.ndjson")
        with open(p, "w") as f:
            f.write("\n".join(json.dumps(e, separators=(',', ':')) for e in ls) + "\n")
        got = {x[0] for x in blocks.judge(ctx, [p], mod="GraphSem_Trace")}
        if want not in got:
            raise vlib.ToolError(f"gengraph binding self-test: corrupted trace ({name}) accepted")
    ctx.notes.append("binding self-test (generated graphs): a truncated sink and a non-terminating run are rejected by GraphSem_Trace")


def replay(ctx, path):
    vlib.build_harness()
    d = json.load(open(path))
    files = run(ctx, [d["replay"]["graph"]], "replay")
    for v in ctx.violations:
        print("FAIL", v[0], v[1][:300])
    rc = 1 if ctx.violations else 0
    ctx.cleanup()
    return rc


# ------------------------------------------------------------ systematic
def small_graphs():
    """Tiny graphs explored with every one-timeout / one-preemption schedule."""
    bits = FLAG * 2 + body_bits([0x7E, 5]) + FLAG * 2
    gs = []
    gs.append({"family": "sys_pkt", "stream_bytes": 4096, "nodes": [N("src_u8", data=bits), N("hdlc", [(1, 1)], min=1, max=60), N("sink", [(2, 1)])]})
    gs.append({"family": "sys_pkt_v2s", "stream_bytes": 4096, "nodes": [N("src_u8", data=bits), N("hdlc", [(1, 1)], min=1, max=60), N("v2s", [(2, 1)]), N("sink", [(3, 1)])]})
    gs.append({"family": "sys_chain", "stream_bytes": 4096, "nodes": [N("src_big", data=[1, 2, 3]), N("addconst", [(1, 1)], val=1000), N("sink", [(2, 1)])]})
    gs.append({"family": "sys_delay", "stream_bytes": 4096, "nodes": [N("src_big", data=[1, 2]), N("delay", [(1, 1)], delay=2), N("sink", [(2, 1)])]})
    gs.append({"family": "sys_diamond", "stream_bytes": 4096, "nodes": [N("src_big", data=[1, 2]), N("tee", [(1, 1)]), N("add", [(2, 1), (2, 2)]), N("sink", [(3, 1)])]})
    # fan-out whose second branch drains one sample at a time (uneven fill of the tee's outputs)
    gs.append({"family": "sys_tee_sip", "stream_bytes": 8192, "nodes": [N("src_big", data=[1, 2, 3]), N("tee", [(1, 1)]), N("sink", [(2, 1)]),
                                                                      N("slow", [(2, 2)], ms=0, max=1), N("sink", [(4, 1)])]})
    # packets that do not both fit in the output stream of VecToStream (4096 bytes): the second one
    # has to wait until the sink has taken the first
    gs.append({"family": "sys_v2s_full", "stream_bytes": 4096, "nodes": [N("src_pkt", pkts=[[3000, 1], [2000, 100], [5, 200]]), N("v2s", [(1, 1)]), N("sink", [(2, 1)])]})
    # ... and the LAST packet is the one that has to wait (nothing behind it in the queue)
    gs.append({"family": "sys_v2s_last", "stream_bytes": 4096, "nodes": [N("src_pkt", pkts=[[3000, 1], [2000, 100]]), N("v2s", [(1, 1)]), N("sink", [(2, 1)])]})
    # blocks that wait for more than one sample: the source delivers in two instalments
    gs.append({"family": "sys_fft", "stream_bytes": 4096, "nodes": [N("src_f", data=[1, 2, 3, 4, 5, 6], chunks=[3, 3]), N("fftfiltf", [(1, 1)], taps=[1, 2, 3]), N("sink", [(2, 1)])]})
    gs.append({"family": "sys_fftc", "stream_bytes": 4096, "nodes": [N("src_c", data=[1, 2, 3, 4, 5, 6, 7], chunks=[3, 2, 2]), N("fftfiltc", [(1, 1)], taps=[1, 2, 3]), N("sink", [(2, 1)])]})
    gs.append({"family": "sys_fir", "stream_bytes": 4096, "nodes": [N("src_f", data=[1, 2, 3, 4, 5, 6, 7], chunks=[2, 3, 2]), N("firf", [(1, 1)], taps=[1, -1, 2], deci=2), N("sink", [(2, 1)])]})
    for g in gs:
        g["order"] = list(range(1, len(g["nodes"]) + 1))
    return gs


def systematic(ctx, limit_per_graph, tag="sys"):
    """Pilot run per graph and priority order to learn the schedule length,
    then all plans (no forcing / one preemption / one timeout / a timeout
    followed within 3 grants by a preemption of the same thread), sampled down
    to limit_per_graph."""
    import itertools
    rnd = random.Random(ctx.seed * 31337 + 5)
    pilots = []
    for gi, g in enumerate(small_graphs()):
        nb = len(g["nodes"])
        perms = list(itertools.permutations(range(nb)))
        if len(perms) > 24:
            perms = [tuple((k + r) % nb for k in range(nb)) for r in range(nb)] + [tuple((r - k) % nb for k in range(nb)) for r in range(nb)]
        for pi, perm in enumerate(perms):
            # main registers first (priority 100: it only spawns and joins); block threads follow in spawn order
            prio = [100] + [10 * (1 + x) for x in perm]
            for vol in (0, 1):
                pilots.append(dict(g, runner="mtx", plan={"prio": prio, "vol": vol}, id=f"p{gi}.{pi}.{vol}:{g['family']}/mtx", gi=gi))
    files = run(ctx, pilots, tag + "-pilot")
    steps = {}
    for tf in files:
        cur = None
        with open(tf) as f:
            for l in f:
                e = json.loads(l)
                if e["ev"] == "graph":
                    cur = e["id"]
                elif e["ev"] == "done":
                    steps[cur] = e["steps"]
    by_graph = {}
    for p in pilots:
        K = steps.get(p["id"], 0)
        prio, vol = p["plan"]["prio"], p["plan"]["vol"]
        mine = [{"prio": prio, "preempt_at": P} for P in range(K)]
        for Q in range(K):
            for who in (0, 1):
                mine.append({"prio": prio, "timeout_at": Q, "timeout_who": who})
                for d in (1, 2, 3):
                    mine.append({"prio": prio, "timeout_at": Q, "timeout_who": who, "preempt_at": Q + d})
        for pl in mine:
            pl["vol"] = vol
        by_graph.setdefault(p["gi"], []).extend((p, pl) for pl in mine)
    graphs = []
    total = 0
    for gi, lst in by_graph.items():
        total += len(lst)
        if limit_per_graph and len(lst) > limit_per_graph:
            lst = rnd.sample(lst, limit_per_graph)
        for k, (p, pl) in enumerate(lst):
            graphs.append(dict(p, plan=pl, id=f"x{gi}.{k}:{p['family']}/mtx"))
    ctx.notes.append(f"systematic schedules: {len(graphs)} of {total} priority-order x one-timeout x one-preemption plans run on {len(by_graph)} small graphs (pilot lengths {min(steps.values())}..{max(steps.values())} grants)")
    return run(ctx, graphs, tag)
