"""C15: input content can never crash a block, decoder or parser.

TLC enumerates the input spaces of specs/Inputs.tla (all bursts of length 0..5
over {-1,0,1,NaN,inf}, AU headers over a grid of offsets/encodings/rates/
channels, all bit strings up to 11 bits); the bench feeds them, plus random
structure-aware inputs (float specials to every float block, arbitrary bytes to
every byte block, malformed SigMF metadata and archives), to the real blocks
whole and chunked. The judging spec has no action for a panic or for a run
that does not settle: either is a violation. Errors (Err) are allowed.
"""
import json, os, random
from lib import vlib
from checks import blocks

LABELS = {"panic", "unsettled", "constructor", "sigmf_panic"}


def enumerate_inputs(ctx, maxburst, maxbits):
    cfg = ctx.path("inputs.cfg")
    with open(cfg, "w") as f:
        f.write(f"CONSTANTS\n MaxBurst = {maxburst}\n MaxBits = {maxbits}\nSPECIFICATION Spec\nINVARIANT Export\nCHECK_DEADLOCK FALSE\n")
    r = vlib.tlc(ctx, "Inputs", cfg, workers=1, timeout=900)
    ctx.cov["states"] += r.distinct
    ctx.cov["transitions"] += r.generated
    cases = [json.loads(s) for s in r.lines("CASE")]
    if not cases:
        raise vlib.ToolError("no inputs enumerated")
    return cases


def base(block, params, gid, **kw):
    d = {"block": block, "params": params, "tags": "none", "stream_bytes": 4096, "gid": gid, "data_seed": gid,
         "tagmap": blocks.NONE, "sync": False, "allow_err": True, "len": 0, "kind": "small"}
    d.update(kw)
    return d


def run(ctx):
    vlib.build_harness()
    th = ctx.thorough()
    cases = enumerate_inputs(ctx, 5 if not th else 6, 10 if not th else 12)
    rnd = random.Random(ctx.seed)
    specs = []
    gid = 0
    val = {"m1": -1.0, "0": 0.0, "1": 1.0, "nan": "nan", "inf": "inf"}
    bursts = [[val[v] for v in c["v"]] for c in cases if c["kind"] == "burst"]
    # longer degenerate bursts: constant, one spike, all specials
    for n in (6, 7, 8, 9, 16, 33):
        for proto in ([1.0] * n, [0.0] * n, ["nan"] * n, [1.0] * (n - 1) + [-1.0], [(-1.0) ** i for i in range(n)], ["inf"] + [0.0] * (n - 1)):
            bursts.append(list(proto))
    # constant bursts whose f32 mean can round away from every sample, and extreme magnitudes
    for v in (0.9, 0.3, 0.6, -0.9, 0.7, -0.1, -0.2, 0.1, 1e-30, 3.4e38, -3.4e38, 1e38):
        for n in (2, 3, 6, 7, 8, 11):
            bursts.append([v] * n)
    for blk in ("Midpointer", "Wpcr"):
        for i in range(0, len(bursts), 12):
            gid += 1
            specs.append(dict(base(blk, {}, gid, packets=bursts[i:i + 12]), mode="random", steps=60, style=1, id=f"{gid}:b", seed=gid))
    # AU headers
    for c in cases:
        if c["kind"] != "header":
            continue
        h = c["v"]
        stream = [46, 115, 110, 100] + list(h["off"].to_bytes(4, "big")) + [255] * 4 + list(h["enc"].to_bytes(4, "big")) + \
            list(h["rate"].to_bytes(4, "big")) + list(h["chan"].to_bytes(4, "big")) + [rnd.randint(0, 255) for _ in range(h["audio"])]
        gid += 1
        specs.append(dict(base("AuDecode", {"rate": 8000}, gid, data=[stream], len=len(stream), kind="bytes"),
                          mode="random", steps=40, style=gid % 3, id=f"{gid}:h", seed=gid))
    # a few corrupt magics / truncated headers
    for stream in ([], [46], [46, 115, 110], [0, 0, 0, 0, 0, 0, 0, 28], [46, 115, 110, 100, 0, 0], [46, 115, 110, 100, 0, 0, 0, 24] + [0] * 10):
        gid += 1
        specs.append(dict(base("AuDecode", {"rate": 8000}, gid, data=[stream], len=len(stream), kind="bytes"), mode="ref", id=f"{gid}:t", seed=1))
    # all short bit strings into the deframers
    bits = [c["v"] for c in cases if c["kind"] == "bits"]
    for blk, params in (("HdlcDeframer", {"min": 0, "max": 4, "fix_bits": True}), ("HdlcDeframer", {"min": 1, "max": 2, "checksum": False}),
                        ("Il2pDeframer", {})):
        for i in range(0, len(bits), 8):
            # concatenate 8 strings with a flag in between (a panic still points to the group)
            data = []
            for b in bits[i:i + 8]:
                data += b + [0, 1, 1, 1, 1, 1, 1, 0]
            gid += 1
            specs.append(dict(base(blk, params, gid, data=[data], len=len(data), kind="bits"), mode="ref", id=f"{gid}:s", seed=1))
    # random structure-aware: every block of the library table with hostile sample values
    table = blocks.block_table(False)
    for ent in table:
        if ent["len"] > 1000 or ent.get("packets"):
            continue
        for kind in ("special", "bytes", "ramp"):
            for k in range(2 if not th else 5):
                gid += 1
                e = {kk: vv for kk, vv in ent.items() if kk not in ("sched", "minwin", "close_ok", "kinds", "fn")}
                e.update(kind=kind, gid=gid, data_seed=ctx.seed * 131 + gid, allow_err=True, tags="none", tagmap=blocks.NONE, sync=False)
                specs.append(dict(e, mode="random", steps=80, style=k % 5, id=f"{gid}:{kind}{k}", seed=ctx.seed + gid, close=(k % 2 == 0)))
    # hostile tags are input too: stray / repeated / oversize bursts into the tag-driven blocks
    for mx, tail in ((5, 0), (1, 0), (3, 1), (20, 2), (0, 0), (2, 5)):
        for k in range(4 if not th else 12):
            gid += 1
            specs.append(dict(base("StreamToPdu<u8>", {"max": mx, "tail": tail}, gid, kind="bytes", len=60 + 7 * k, tags="burst_stray" if k % 2 == 0 else "burst"),
                              mode="random", steps=70, style=k % 5, id=f"{gid}:pdu{k}", seed=ctx.seed * 17 + gid, force_tags="burst_stray" if k % 2 == 0 else "burst"))
    for blk, prm, kinds in (("BurstTagger<u8>", {"threshold": 0.5}, ["bytes", "special"]), ("CorrelateAccessCodeTag", {"code": [1, 0, 1], "allowed": 0}, None),
                            ("VectorSink<u8>", {}, None), ("Delay<u8>", {"delay": 3}, None), ("Skip<u8>", {"skip": 5}, None), ("Tee<u8>", {}, None),
                            ("RationalResampler<u8>", {"interp": 3, "deci": 2}, None), ("ToText<u8>", {}, None), ("DebugFilter<u8>", {}, None)):
        for k in range(2 if not th else 6):
            gid += 1
            d = dict(base(blk, prm, gid, kind="bits" if "Correlate" in blk else "bytes", len=50 + k, tags="dense" if k % 2 else "burst_stray"),
                     mode="random", steps=60, style=k % 5, id=f"{gid}:tg{k}", seed=ctx.seed * 19 + gid)
            if kinds:
                d["kinds"] = kinds
            specs.append(d)
    # blocks with two outputs under back-pressure: the outputs are drained by different readers,
    # so their free space differs while more input is waiting than either can take
    for blk, prm, kind, n in (("ZeroCrossingClock", {"sps": 2.0}, "nrz", 6000), ("ZeroCrossingClock", {"sps": 4.0}, "special", 9000), ("Tee<u8>", {}, "bytes", 9000),
                              ("SymbolSync", {"sps": 4.0}, "glitchy", 9000), ("SymbolSync", {"sps": 4.0}, "special", 9000), ("ZeroCrossing", {"sps": 4.0}, "glitchy", 9000)):
        for k in range(6 if not th else 12):
            gid += 1
            specs.append(dict(base(blk, prm, gid, kind=kind, len=n), mode="random", steps=400, style=3 + k % 2, id=f"{gid}:bp{k}", seed=ctx.seed * 29 + gid))
    # IL2P: sync marks anywhere in random bits, the header collected over several calls
    for k in range(6 if not th else 20):
        gid += 1
        specs.append(dict(base("Il2pDeframer", {}, gid, kind="bits", len=300 + 50 * k, tags="sync"),
                          mode="random", steps=80, style=k % 5, id=f"{gid}:il2p{k}", seed=ctx.seed * 23 + gid, force_tags="sync"))
    # StreamToPdu / VecToStream degenerate packets
    gid += 1
    specs.append(dict(base("VecToStream<u8>", {}, gid, packets=[[], [1], [], [], [2, 3]]), mode="random", steps=40, style=1, id=f"{gid}:v", seed=gid))
    ctx.cov["distinct_nontrivial"] += len(specs)
    ctx.sample({k: v for k, v in specs[0].items() if k in ("block", "packets", "mode")})
    ctx.sample({k: v for k, v in specs[len(specs) // 2].items() if k in ("block", "params", "data", "kind", "mode")})
    files = blocks.run_bench(ctx, specs, "C15")
    fails = blocks.judge(ctx, files)
    blocks.report(ctx, fails, LABELS)
    # SigMF metadata / archives
    of = ctx.path("sigmf-fuzz.ndjson")
    res = vlib.vh_json(["sigmf-fuzz", "--out", of, "--seed", ctx.seed, "--n", 400 if th else 120])
    ctx.cov["evaluations"] += res["events"]
    with open(of) as f:
        for l in f:
            e = json.loads(l)
            if e["result"] == "panic":
                ctx.violation(f"SigMFSource:sigmf_panic:{e['case']}", f"SigMF input {e['case']} panicked: {e.get('msg', '')[:200]}", replay_obj=e)
    ctx.assumptions += [
        "memory safety proper (touching memory outside the windows) is visible only as a bounds panic",
        "'spins forever' is a settle budget in work() calls, never wall-clock",
        "blocks that need hardware are not covered",
    ]
    return vlib.finish(ctx, "exploration", extra_cov={
        "rule": "states = inputs enumerated by TLC (bursts, AU headers, bit strings); evaluations = work() calls and parser invocations judged; distinct_nontrivial = scenarios"})


def replay(ctx, path):
    return blocks.replay(ctx, path)
