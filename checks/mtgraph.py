"""C05 and C07: the multithreaded runner (specs/MTGraph.tla) and, for C07, also
the single-threaded runner (specs/Graph.tla with Cancel / Fail).

1. TLC checks MTGraph exhaustively at scheduling-point grain for chains of 2 and
   3 blocks: terminates under fair scheduling (liveness), sink = reference,
   all threads exited, bounded work after cancel, block error -> Err.
2. spec -> impl: every transition of the 2-block model is executed as a step of
   a schedule on the real MTGraph::run (VectorSource -> VectorSink) under the
   controlled scheduler; traces are validated by TLC (MTGraph_Trace).
3. impl -> spec: seeded random / sticky / timeout-eager schedules on chains of
   2..4 real blocks, capacities 1..4, every add order, source lengths 0..beyond
   capacity, with a canceller thread and failing blocks for C07; every trace is
   validated by TLC with the invariants evaluated on the implementation trace.
"""
import json, os, itertools, concurrent.futures, collections
from lib import vlib
from checks import graph as stgraph

INV = ["AllExited", "ResultRight", "CancelBounded", "FailIsErr", "NoPanic", "TypeOK"]


def consts(n, cap, totals, cancel="FALSE", fail="NoFail", allorders="TRUE", quirks="{}"):
    return {"N": n, "Cap": cap, "Totals": "{" + ", ".join(map(str, totals)) + "}", "MayCancel": cancel,
            "FailAt": f"<- {fail}", "AllOrders": allorders, "Quirks": quirks}


def model(ctx, c, liveness=True, workers=10, timeout=1500, props=None):
    cfg = ctx.path("mtg.cfg")
    stgraph.write_cfg(cfg, c, "Spec", INV, props if props is not None else (["Terminates"] if liveness else []))
    r = vlib.tlc(ctx, "MC_MTGraph", cfg, workers=workers, timeout=timeout, xmx="24g")
    if r.violated or not r.ok:
        raise vlib.ToolError(f"MTGraph.tla violates {r.violated}:\n{r.out[-2500:]}")
    ctx.cov["states"] += r.distinct
    ctx.cov["transitions"] += r.generated


def trace_consts(n, cap):
    return {"N": n, "Cap": cap, "Totals": "{}", "MayCancel": "TRUE", "FailAt": "{}", "AllOrders": "FALSE", "Quirks": "{}"}


def run_real(ctx, configs, tag):
    """configs grouped by (n, cap); returns list of (trace file, n, cap, nruns)."""
    groups = collections.defaultdict(list)
    for c in configs:
        groups[(c["n"], c["cap"])].append(c)
    jobs = []
    for (n, cap), cs in groups.items():
        nch = max(1, min(4, len(cs) // 50))
        for i in range(nch):
            jobs.append((n, cap, i, cs[i::nch]))

    def one(job):
        n, cap, i, cs = job
        cf = ctx.path(f"mtcfg-{tag}-{n}-{cap}-{i}.ndjson")
        tf = ctx.path(f"mttrace-{tag}-{n}-{cap}-{i}.ndjson")
        with open(cf, "w") as f:
            for c in cs:
                f.write(json.dumps(c) + "\n")
        res = vlib.vh_json(["mtgraph-run", "--configs", cf, "--out", tf], timeout=1700)
        return tf, n, cap, len(cs), res
    out = []
    with concurrent.futures.ThreadPoolExecutor(max_workers=10) as ex:
        for tf, n, cap, k, res in ex.map(one, jobs):
            ctx.cov["evaluations"] += res["steps"]
            out.append((tf, n, cap, k))
    return out


def validate_all(ctx, files, what):
    def one(item):
        tf, n, cap, k = item
        return item, vlib.validate_trace(ctx, "MTGraph_Trace", tf, trace_consts(n, cap), invariants=INV, timeout=1500, xmx="6g")
    with concurrent.futures.ThreadPoolExecutor(max_workers=6) as ex:
        for (tf, n, cap, k), (ok, info) in ex.map(one, files):
            if ok:
                ctx.cov["traces_validated_against_impl"] += k
                continue
            text = " ".join(info.get("rejected", [])) + " " + " ".join(info.get("violated", []))
            sig = f"{what}:trace"
            for key in ("ResultRight", "AllExited", "CancelBounded", "FailIsErr", "NoPanic", "diverged", "deadlock", "budget",
                        "mt_return", "mt_wait", "mt_work", "join", "cvwait", "drop_"):
                if key in text:
                    sig = f"{what}:{key}"
                    break
            ctx.violation(sig, f"{what} n={n} cap={cap}: {text[:600]}", replay_src=tf)


def cover_replay(ctx, n, cap, totals, cancel, fail):
    cfg = ctx.path("mtg-edges.cfg")
    stgraph.write_cfg(cfg, consts(n, cap, totals, cancel=cancel, fail=fail, allorders="FALSE"), "SpecE", [])
    r = vlib.tlc(ctx, "MC_MTGraph", cfg, workers=1, timeout=1500, xmx="16g")
    edges = [json.loads(s) for s in r.lines("EDGE")]
    if not edges:
        raise vlib.ToolError("no EDGE lines from MC_MTGraph")
    groups = collections.defaultdict(list)
    for e in edges:
        groups[json.dumps(e["cfg"], sort_keys=True)].append(e)
    configs, ndist = [], 0
    for key, es in groups.items():
        cfgv = json.loads(key)
        paths, nd = vlib.cover_paths(es, key=lambda s: s)
        ndist += nd
        for p in paths:
            configs.append({"n": n, "cap": cap, "total": cfgv["total"], "fail": cfgv["fail"], "cancel": cfgv["cancel"],
                            "order": cfgv["order"], "seed": ctx.seed + len(configs), "sched": [e["act"] for e in p]})
    ctx.cov["distinct_nontrivial"] += ndist
    mid = configs[len(configs) // 2]
    ctx.sample({"config": {k: mid[k] for k in ("n", "cap", "total", "fail", "cancel")},
                "schedule": [f'{a["t"]}{a["b"] or ""}:{a["pt"]}:{a["g"]}' for a in mid["sched"]][:40]})
    files = run_real(ctx, configs, "cover")
    ctx.notes.append(f"MTGraph transition cover N={n}: {ndist} distinct transitions in {len(configs)} schedules on the real runner")
    validate_all(ctx, files, "replay")
    return files


def random_configs(ctx, ns, caps, seeds, cancel=False, fails=False):
    out = []
    k = 0
    for n in ns:
        orders = list(itertools.permutations(range(1, n + 1))) if n <= 3 else \
            [tuple(range(1, n + 1)), tuple(range(n, 0, -1)), (2, 4, 1, 3)]
        for cap in caps:
            totals = sorted(set([0, 1, cap, cap + 1, 2 * cap + 1, 3 * cap + 2]))
            for total in totals:
                for order in orders:
                    variants = [([0, 0], False)]
                    if cancel:
                        variants.append(([0, 0], True))
                    if fails:
                        variants += [([b, kk], False) for b in range(1, n + 1) for kk in (1, 2)]
                        if cancel:
                            variants.append(([1 + (k % n), 2], True))
                    for fail, canc in variants:
                        for s in range(seeds):
                            k += 1
                            out.append({"n": n, "cap": cap, "total": total, "order": list(order), "fail": fail,
                                        "cancel": canc, "seed": ctx.seed * 100003 + k})
            if cancel:
                # infinite source, ended by the canceller thread at a random point
                for order in orders:
                    for s in range(2 * seeds + 2):
                        k += 1
                        out.append({"n": n, "cap": cap, "total": -1, "order": list(order), "fail": [0, 0],
                                    "cancel": True, "seed": ctx.seed * 100003 + k})
    return out


def self_test(ctx, items):
    for tf, n, cap, k in items:
        with open(tf) as f:
            evs = [json.loads(l) for l in f.read().splitlines()]
        cand = [i for i, e in enumerate(evs) if e["pt"] == "lock" and e["evs"] and e["evs"][0].get("ev") == "produce"]
        if cand:
            break
    else:
        raise vlib.ToolError("self-test: no produce step in any MTGraph trace")
    i = cand[0]
    nxt = [j for j, e in enumerate(evs) if e["pt"] == "config" and j > i]
    if nxt:
        evs = evs[:nxt[0]]
    start = max([j for j, e in enumerate(evs) if e["pt"] == "config" and j < i])
    evs = evs[start:]
    i -= start
    cand = [i]
    i = cand[len(cand) // 2]
    bad = json.loads(json.dumps(evs))
    bad[i]["evs"][0]["used"] += 1
    p1, p2 = ctx.path("mtg-selftest-corrupt.ndjson"), ctx.path("mtg-selftest-drop.ndjson")
    with open(p1, "w") as f:
        f.write("\n".join(json.dumps(e) for e in bad) + "\n")
    with open(p2, "w") as f:
        f.write("\n".join(json.dumps(e) for j, e in enumerate(evs) if j != i) + "\n")
    for p in (p1, p2):
        ok, _ = vlib.validate_trace(ctx, "MTGraph_Trace", p, trace_consts(n, cap), invariants=INV)
        if ok:
            raise vlib.ToolError(f"binding self-test failed: {os.path.basename(p)} accepted")
    ctx.notes.append("binding self-test: corrupted and step-dropped MTGraph traces rejected")


def quirk_demo(ctx):
    cfg = ctx.path("mtg-quirk.cfg")
    stgraph.write_cfg(cfg, consts(2, 2, [1], fail="FailSmall", quirks='{"join_panics"}'), "Spec", ["NoPanic"])
    r = vlib.tlc(ctx, "MC_MTGraph", cfg, workers=4)
    if "violated" not in r.out:
        raise vlib.ToolError("quirk join_panics not detected: spec is vacuous")
    ctx.notes.append("non-vacuity: MTGraph with quirk join_panics violates NoPanic")


def run(ctx):
    vlib.build_harness()
    c07 = ctx.prop == "C07"
    if c07:
        # --- single-threaded runner
        st_file, st_cap = stgraph.run_c07_st(ctx)
        # --- multithreaded runner
        model(ctx, consts(2, 2, [0, 1, 3], cancel="TRUE", fail="FailSmall"))
        # infinite source: the run ends only by cancellation, and then it must end
        cinf = consts(2, 2, [], cancel="TRUE")
        cinf["Totals"] = "<- TotalsInf"
        model(ctx, cinf, props=["CancelStops"])
        if ctx.thorough():
            cinf3 = consts(3, 1, [], cancel="TRUE", allorders="FALSE")
            cinf3["Totals"] = "<- TotalsInf"
            # three blocks: safety only (CancelBounded etc.); the liveness check CancelStops on three
            # blocks with an infinite source did not finish within 45 minutes, it stays on two blocks
            model(ctx, cinf3, props=[], timeout=5000)
        if ctx.thorough():
            # (capacity 2 here took over 40 minutes on a loaded machine)
            model(ctx, consts(3, 1, [0, 2], cancel="TRUE", fail="FailSmall", allorders="FALSE"), timeout=5000)
            files = cover_replay(ctx, 2, 2, [0, 1, 3], "TRUE", "FailSmall")
            cfgs = random_configs(ctx, [2, 3, 4], [1, 2, 4], 3, cancel=True, fails=True)
        else:
            files = cover_replay(ctx, 2, 1, [0, 2], "TRUE", "FailSmall")
            cfgs = random_configs(ctx, [2, 3], [2], 1, cancel=True, fails=True)
    else:
        model(ctx, consts(2, 2, [0, 1, 2, 3, 5]))
        model(ctx, consts(2, 1, [0, 1, 2, 3]))
        if ctx.thorough():
            model(ctx, consts(3, 2, [0, 1, 3], allorders="FALSE"), liveness=False, timeout=5000)   # safety only at this size
            model(ctx, consts(3, 1, [0, 1, 2], allorders="TRUE"), timeout=5000)
            files = cover_replay(ctx, 2, 2, [0, 1, 3, 5], "FALSE", "NoFail")
            cfgs = random_configs(ctx, [2, 3, 4], [1, 2, 4], 6)
        else:
            model(ctx, consts(3, 1, [0, 1, 2], allorders="FALSE"), timeout=1200)
            files = cover_replay(ctx, 2, 2, [0, 1, 3], "FALSE", "NoFail")
            cfgs = random_configs(ctx, [2, 3, 4], [1, 2], 2)
    ctx.sample({k: v for k, v in cfgs[len(cfgs) // 2].items()})
    rfiles = run_real(ctx, cfgs, "random")
    validate_all(ctx, rfiles, "random")
    gfiles = None
    if not c07:
        # generated graphs over the block library (diamonds, rate changers, packet stages):
        # result-level conformance with the denotation of the graph (GraphSem.tla)
        from checks import gengraph
        th = ctx.thorough()
        graphs = gengraph.make(ctx, ["mt", "mtc"], 40 if th else 16, 6 if th else 4)
        gfiles = gengraph.run(ctx, graphs, "gen")
        # every one-timeout / one-preemption schedule of a few tiny graphs (sampled in the quick tier)
        gengraph.systematic(ctx, 8000 if th else 1000)
    if not ctx.violations:
        self_test(ctx, rfiles)
        if gfiles:
            gengraph.self_test(ctx, gfiles[0])
    quirk_demo(ctx)
    ctx.assumptions += [
        "step-level model and traces: chains VectorSource -> AddConst* -> VectorSink over one-page-per-sample streams (capacity 1..4); sequentially consistent interleavings at scheduling-point grain",
        "generated graphs (chains with Delay/Skip/RationalResampler, Tee/Add diamonds, fan-out, HdlcDeframer/VecToStream packet stages, NrziDecode/Descrambler, u8 rate changers up to 3 buffer capacities) are checked at result level only: termination, Ok, all threads exited, sinks = GraphSem denotation, on OS threads and under seeded random / sticky / starving / timeout-eager controlled schedules; 5 tiny graphs (packet stage, packet stage + VecToStream, chain, delay, diamond) additionally under all schedules with at most one forced timeout and one forced preemption (non-preemptive otherwise; sampled in the quick tier)",
        "termination of real runs is a grant budget under the controlled scheduler, never wall-clock",
        "fair scheduling is assumed for the liveness property Terminates (a waiting thread may time out and retry arbitrarily often)",
    ]
    return vlib.finish(ctx, "model_checking", extra_cov={
        "rule": "states/transitions: TLC exhaustive on MTGraph (and Graph for C07); distinct_nontrivial = distinct model transitions executed on the real runner as schedule steps (plus distinct ST configurations for C07); traces = real runs validated by TLC; evaluations = scheduler grants / runner events",
    })


def replay(ctx, path):
    vlib.build_harness()
    try:
        whole = json.load(open(path))
        kind = whole.get("replay", {}).get("kind") if isinstance(whole, dict) else None
    except ValueError:
        kind = None     # an ndjson trace
    if kind == "gengraph":
        from checks import gengraph
        return gengraph.replay(ctx, path)
    with open(path) as f:
        e0 = json.loads(f.readline())
    if e0.get("ev") == "config":
        return stgraph.replay(ctx, path)
    ok, info = vlib.validate_trace(ctx, "MTGraph_Trace", path, trace_consts(e0["n"], e0["cap"]), invariants=INV)
    print("accepted" if ok else f"rejected: {info.get('rejected')} {info.get('violated')}")
    ctx.cleanup()
    return 0 if ok else 1
