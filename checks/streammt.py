"""C03 / C04: producer thread + consumer thread on one stream
(specs/StreamMT.tla), bound to the real code by the controlled scheduler.

1. TLC checks StreamMT exhaustively (all interleavings at scheduling-point
   grain, timeouts as scheduler choices) for the C03 / C04 invariants.
2. spec -> impl: every transition of a (smaller) exhaustive run is exported as a
   schedule step; cover paths are executed on two real threads over a real
   stream (`vh mt-replay`); the recorded step trace is validated by TLC against
   StreamMT_Trace (same actions, same invariants).
3. impl -> spec: seeded random clients and schedules (`vh mt-random`), traces
   validated the same way.
4. Binding self-test and non-vacuity (quirk model must violate NeverIsTrue).
"""
import json, os
from lib import vlib

C03_INV = ["Counts", "ReadsRight", "WindowsDisjoint", "Committed", "TagsComplete", "WindowTagsRight"]
C04_INV = ["NeverIsTrue", "EofIsTrue", "NoLoss", "LateFalse"]


def consts(cap, total, chunk, waits, needs, quirks="{}"):
    return {"Cap": cap, "Total": total, "MaxChunk": chunk, "MaxWaits": waits,
            "Needs": "{" + ", ".join(map(str, needs)) + "}", "Quirks": quirks}


def classify(text):
    for k, sig in (("NeverIsTrue", "never"), ("EofIsTrue", "eof"), ("NoLoss", "loss"), ("LateFalse", "latefalse"),
                   ("ReadsRight", "reads"), ("WindowsDisjoint", "windows"), ("Counts", "counts"), ("Committed", "committed"),
                   ("TagsComplete", "tags"), ("WindowTagsRight", "wintags")):
        if k in text:
            return "inv:" + sig
    if "diverged" in text:
        return "diverged"
    for k in ("waitr", "waitw", "eof", "produce", "consume", "acqr", "acqw", "read", "cvret", "drop"):
        if f'"{k}"' in text:
            return "step:" + k
    return "step"


def validate(ctx, tf, c, invs, what, count_traces, mod="StreamMT"):
    ok, info = vlib.validate_trace(ctx, mod + "_Trace", tf, c, invariants=invs, timeout=3000, xmx="8g")
    if ok:
        ctx.cov["traces_validated_against_impl"] += count_traces
        return True
    text = " ".join(info.get("rejected", [])) + " " + " ".join(info.get("violated", []))
    ctx.violation(f"{what}:{classify(text)}", f"{what}: {text[:500]}", replay_src=tf)
    return False


def model(ctx, c, invs, mod="StreamMT"):
    cfg = ctx.path("smt.cfg")
    vlib.write_cfg(cfg, c, spec="Spec", invariants=invs)
    r = vlib.tlc(ctx, mod, cfg, workers=8, timeout=4000, xmx="16g")
    if r.violated or not r.ok:
        raise vlib.ToolError(f"{mod}.tla (no quirks) violates {r.violated}:\n{r.out[-2000:]}")
    ctx.cov["states"] += r.distinct
    ctx.cov["transitions"] += r.generated


def cover_replay(ctx, c, cap, invs, mod="StreamMT"):
    nc = ["--nc"] if mod == "NCStream" else []
    cfg = ctx.path("smt-edges.cfg")
    vlib.write_cfg(cfg, c, spec="SpecE")
    r = vlib.tlc(ctx, "MC_" + mod, cfg, workers=1, timeout=4000, xmx="16g")
    edges = [json.loads(s) for s in r.lines("EDGE")]
    if not edges:
        raise vlib.ToolError("no EDGE lines from MC_StreamMT")
    paths, ndist = vlib.cover_paths(edges, key=lambda s: s)
    pf = ctx.path("smt-paths.ndjson")
    with open(pf, "w") as f:
        for p in paths:
            f.write(json.dumps([e["act"] for e in p]) + "\n")
    tf = ctx.path("smt-replay-trace.ndjson")
    res = vlib.vh_json(["mt-replay", "--paths", pf, "--out", tf, "--cap", cap] + nc, timeout=1700)
    ctx.cov["evaluations"] += res["steps"]
    ctx.cov["distinct_nontrivial"] += ndist
    ctx.sample({"schedule": [f'{e["act"]["t"]}:{e["act"]["pt"]}:{e["act"]["g"]}' + (":" + e["act"]["cmd"]["op"] if e["act"]["cmd"]["op"] != "none" else "")
                             for e in paths[len(paths) // 2]][:40]})
    ctx.notes.append(f"{mod} transition cover: {ndist} distinct transitions in {len(paths)} schedules, {res['steps']} real steps, {res['diverged']} diverged")
    validate(ctx, tf, c, invs, "replay" + ("-nc" if nc else ""), res["paths"], mod)
    return tf


def nc_consts(total, waits, needs, quirks="{}"):
    return {"Total": total, "MaxWaits": waits, "Needs": "{" + ", ".join(map(str, needs)) + "}", "Quirks": quirks}


def random_runs(ctx, cap, total, runs, invs, seedmix, quirks, mod="StreamMT"):
    nc = ["--nc"] if mod == "NCStream" else []
    tf = ctx.path(f"smt-random-{mod}-{cap}-{total}.ndjson")
    res = vlib.vh_json(["mt-random", "--out", tf, "--seed", ctx.seed * 31 + seedmix, "--runs", runs,
                        "--cap", cap, "--total", total] + nc, timeout=1700)
    ctx.cov["evaluations"] += res["steps"]
    c = nc_consts(total, 1000000, [1], quirks) if nc else consts(cap, total, cap, 1000000, [1], quirks)
    validate(ctx, tf, c, invs, "random" + ("-nc" if nc else ""), res["runs"], mod)
    return tf, c


def self_test(ctx, tf, c, invs):
    with open(tf) as f:
        evs = [json.loads(l) for l in f.read().splitlines()][:4000]
    # cut at a reset boundary so the prefix is a whole number of runs
    idx = [i for i, e in enumerate(evs) if e["pt"] == "reset"]
    if len(idx) > 1:
        evs = evs[:idx[-1]]
    cand = [i for i, e in enumerate(evs) if e["pt"] == "lock" and e["evs"] and e["evs"][0]["ev"] == "produce"]
    if not cand:
        raise vlib.ToolError("self-test: no produce step")
    i = cand[len(cand) // 2]
    bad = json.loads(json.dumps(evs))
    bad[i]["evs"][0]["used"] += 1
    p1 = ctx.path("smt-selftest-corrupt.ndjson")
    with open(p1, "w") as f:
        f.write("\n".join(json.dumps(e) for e in bad) + "\n")
    p2 = ctx.path("smt-selftest-drop.ndjson")
    with open(p2, "w") as f:
        f.write("\n".join(json.dumps(e) for k, e in enumerate(evs) if k != i) + "\n")
    p3 = ctx.path("smt-selftest-ok.ndjson")
    with open(p3, "w") as f:
        f.write("\n".join(json.dumps(e) for e in evs) + "\n")
    ok, _ = vlib.validate_trace(ctx, "StreamMT_Trace", p3, c, invariants=invs)
    if not ok:
        raise vlib.ToolError("self-test: unmodified prefix rejected")
    for p in (p1, p2):
        ok, _ = vlib.validate_trace(ctx, "StreamMT_Trace", p, c, invariants=invs)
        if ok:
            raise vlib.ToolError(f"binding self-test failed: {os.path.basename(p)} accepted")
    ctx.notes.append("binding self-test: corrupted and step-dropped traces rejected")


def quirk_demo(ctx):
    cfg = ctx.path("smt-quirk.cfg")
    vlib.write_cfg(cfg, consts(2, 2, 2, 1, [1], '{"rc_after_wait"}'), spec="Spec", invariants=["NeverIsTrue"])
    r = vlib.tlc(ctx, "StreamMT", cfg, workers=4)
    if "NeverIsTrue" not in " ".join(r.violated) and "violated" not in r.out:
        raise vlib.ToolError("quirk rc_after_wait not detected: spec is vacuous")
    ctx.notes.append("non-vacuity: model with quirk rc_after_wait (liveness read after the wait) violates NeverIsTrue")
    cfg = ctx.path("nc-quirk.cfg")
    vlib.write_cfg(cfg, nc_consts(2, 2, [1], '{"nc_eof_rc_after"}'), spec="Spec", invariants=["EofIsTrue"])
    r = vlib.tlc(ctx, "NCStream", cfg, workers=4)
    if "violated" not in r.out:
        raise vlib.ToolError("quirk nc_eof_rc_after not detected: NCStream spec is vacuous")
    ctx.notes.append("non-vacuity: NCStream with quirk nc_eof_rc_after violates EofIsTrue")


def run(ctx, quirks="{}"):
    vlib.build_harness()
    invs = C03_INV if ctx.prop == "C03" else C04_INV
    allinv = C03_INV + C04_INV
    if ctx.thorough():
        model(ctx, consts(2, 4, 2, 2, [1, 2, 3], quirks), allinv)
        model(ctx, consts(3, 4, 3, 2, [1, 3], quirks), allinv)
        cover = consts(2, 3, 2, 1, [1, 2], quirks)
        rand = [(2, 6, 200), (4, 10, 200), (8, 40, 100), (1, 3, 100)]
    else:
        model(ctx, consts(2, 3, 2, 2, [1, 2, 3], quirks), allinv)     # need 3 > capacity 2
        cover = consts(2, 2, 2, 1, [1], quirks)
        rand = [(2, 5, 60), (4, 10, 60)]
    cover_replay(ctx, cover, 2, allinv)
    last = None
    for i, (cap, total, runs) in enumerate(rand):
        tf, c = random_runs(ctx, cap, total, runs, allinv, i, quirks)
        last = (tf, c)
    if last and not ctx.violations:
        self_test(ctx, last[0], last[1], allinv)
    if ctx.prop == "C03":
        cfg = ctx.path("smt-quirk-tags.cfg")
        vlib.write_cfg(cfg, consts(2, 3, 2, 1, [1], '{"consume_two_sections"}'), spec="Spec", invariants=["TagsComplete", "WindowTagsRight"])
        r = vlib.tlc(ctx, "StreamMT", cfg, workers=4)
        if "TagsComplete" not in " ".join(r.violated) and "violated" not in r.out:
            raise vlib.ToolError("quirk consume_two_sections not detected: tag invariants are vacuous")
        ctx.notes.append("non-vacuity: model with quirk consume_two_sections (space released and tags pruned in two critical sections) violates TagsComplete")
    if ctx.prop == "C04":
        # packet (non-copy) streams
        ncinv = ["NeverIsTrue", "EofIsTrue", "NoLoss", "LateFalse"]
        if ctx.thorough():
            model(ctx, nc_consts(4, 3, [1, 2, 3]), ncinv, "NCStream")
            cover_replay(ctx, nc_consts(3, 2, [1, 2]), 1, ncinv, "NCStream")
            random_runs(ctx, 1, 12, 300, ncinv, 77, "{}", "NCStream")
        else:
            model(ctx, nc_consts(3, 3, [1, 2]), ncinv, "NCStream")
            cover_replay(ctx, nc_consts(2, 2, [1, 2]), 1, ncinv, "NCStream")
            random_runs(ctx, 1, 6, 80, ncinv, 77, "{}", "NCStream")
        quirk_demo(ctx)
    ctx.assumptions += [
        "sequentially consistent interleavings at scheduling-point grain (lock, unlock, condvar wait, refcount read, handle drop, window memory access); hardware memory-model effects are outside the technique",
        "client discipline as in C01; one producer thread, one consumer thread",
        "condvar timeouts are scheduler choices (any wait may time out at any moment)",
    ]
    return vlib.finish(ctx, "model_checking", extra_cov={
        "rule": "states/transitions: TLC exhaustive on StreamMT; distinct_nontrivial = distinct model transitions executed as real schedule steps; "
                "traces = schedules (cover paths + random runs) executed on real threads and validated by TLC; evaluations = real scheduler grants",
        "invariants": invs})


def replay(ctx, path):
    vlib.build_harness()
    with open(path) as f:
        e0 = json.loads(f.readline())
    cap = e0.get("cap", 2)
    c = consts(cap, 1000000, cap, 1000000, [1])
    # Total is unknown for a bare trace: P_CmdDrop needs produced = Total; use the
    # number committed in the trace.
    tot = 0
    with open(path) as f:
        for l in f:
            e = json.loads(l)
            if e["pt"] == "reset":
                tot = 0
            if e.get("cmd", {}).get("op") == "put":
                tot += e["cmd"]["n"]
    c["Total"] = max(tot, 1)
    ok, info = vlib.validate_trace(ctx, "StreamMT_Trace", path, c, invariants=C03_INV + C04_INV)
    print("accepted" if ok else f"rejected: {info.get('rejected')} {info.get('violated')}")
    ctx.cleanup()
    return 0 if ok else 1
