"""C01 / C02: sequential ring conformance (specs/Ring.tla).

1. TLC checks Ring exhaustively for small capacities (invariants + action
   properties).
2. Every transition TLC explored is exported (MC_Ring.SpecE) and a set of paths
   covering each distinct transition is replayed on a real stream; the
   projected state is compared after every step.
3. Seeded random op sequences on real streams of realistic sizes and several
   element sizes are recorded and validated by TLC against Ring_Trace.
4. Binding self-test: a corrupted and a truncated trace must be rejected.
"""
import json, os, random
from lib import vlib


def cfg_consts(cap, total, maxtags, quirks="{}"):
    return {"Cap": cap, "MaxTotal": total, "MaxTags": maxtags, "Quirks": quirks}


def classify(prop, text):
    """Signature of a divergence, from the harness/TLC message."""
    t = text
    if "tags" in t or "tag" in t or '"tc"' in t:
        return "tags"
    if "refused" in t or "accepted" in t:
        return "refusal"
    if "window" in t:
        return "window"
    if "contents" in t or "runs" in t:
        return "contents"
    return "state"


def model_and_replay(ctx, cap, total, maxtags, elems):
    # 1. exhaustive check of the property model.
    cfg = ctx.path(f"ring-{cap}.cfg")
    vlib.write_cfg(cfg, cfg_consts(cap, total, maxtags), spec="Spec", invariants=["Inv"],
                   properties=["TagsOnConsume", "RefusalKeeps"])
    r = vlib.tlc(ctx, "MC_Ring", cfg, workers=8)
    if r.violated or not r.ok:
        raise vlib.ToolError(f"Ring.tla (no quirks) violates its own properties at Cap={cap}: {r.violated}\n{r.out[-1500:]}")
    ctx.cov["states"] += r.distinct
    ctx.cov["transitions"] += r.generated
    # 2. edge export + cover + replay.
    cfg = ctx.path(f"ring-edges-{cap}.cfg")
    vlib.write_cfg(cfg, cfg_consts(cap, total, maxtags), spec="SpecE")
    r = vlib.tlc(ctx, "MC_Ring", cfg, workers=1, xmx="8g")
    edges = [json.loads(s) for s in r.lines("EDGE")]
    if not edges:
        raise vlib.ToolError("no EDGE lines from TLC")
    paths, ndist = vlib.cover_paths(edges)
    pf = ctx.path(f"ring-paths-{cap}.ndjson")
    with open(pf, "w") as f:
        for p in paths:
            f.write(json.dumps([vlib.strip(e) for e in p]) + "\n")
    ctx.sample({"cap": cap, "path": [e["act"] for e in paths[len(paths) // 2]][:12]})
    for elem in elems:
        if elem == "sub" and cap not in (1, 2, 4, 8):
            continue
        res = vlib.vh_json(["ring-replay", "--paths", pf, "--cap", cap, "--elem", elem], timeout=1200)
        ctx.cov["evaluations"] += res["steps"]
        ctx.cov["traces_validated_against_impl"] += res["paths"]
        ctx.cov["distinct_nontrivial"] += ndist
        for fl in res["fails"]:
            if "error" not in fl:
                continue
            sig = f"replay:{classify(ctx.prop, fl['error'])}"
            rp = ctx.path("replay.json")
            with open(rp, "w") as f:
                json.dump({"kind": "ring-replay", "cap": cap, "elem": elem, "error": fl["error"],
                           "path": [vlib.strip(e) for e in paths[fl["path"]]]}, f)
            ctx.violation(sig, f"cap={cap} elem={elem}: {fl['error']}", replay_src=rp)
    return ndist


def random_traces(ctx, combos, runs, ops, tagheavy):
    """Random op traces on real streams, validated by TLC (one JVM per combination, in parallel).
    TLC's cost per event grows with the capacity (the model state holds every cell), so the
    number of operations is scaled down for big rings."""
    import concurrent.futures
    # buffer sizes that are not a page multiple: refused, or a correct ring of that size
    combos = list(combos) + [(1, 6000 / 4096), (4, 10000 / 4096), (1, 4097 / 4096), (8, 12296 / 4096)]

    def one(combo):
        elem, pages = combo
        nbytes = round(pages * 4096)
        odd = nbytes % 4096 != 0
        cap = nbytes // elem
        r = max(2, runs // 4) if odd else runs
        o = ops
        budget = 1200000 // max(cap, 1)          # events affordable at this capacity
        if r * o > budget:
            r = max(2, min(r, budget // 60))
            o = max(40, budget // r)
        tf = ctx.path(f"ring-trace-{elem}-{nbytes}.ndjson")
        res = vlib.vh_json(["ring-trace", "--out", tf, "--elem", elem, "--bytes", nbytes,
                            "--seed", ctx.seed * 7919 + elem * 31 + nbytes, "--runs", r, "--ops", o])
        divides = nbytes % elem == 0 and not odd
        with open(tf) as f:
            lines = f.read().splitlines()
        if not divides:
            # The model: such a stream is either refused at construction, or
            # behaves as a correct ring of floor(size/elem) samples.
            if all(json.loads(l)["op"] == "new_err" for l in lines):
                return (combo, tf, cap, None, len(lines), 0, None, None, lines)
        mod = {1: 251, 2: 65521, 3: 1 << 24}.get(elem, 1 << 30)
        ok, info = vlib.validate_trace(ctx, "Ring_Trace", tf,
                                       dict(cfg_consts(cap, 1000000000, 9), Modulus=mod),
                                       invariants=["Inv"], timeout=3000)
        return (combo, tf, cap, mod, res["events"], res["runs"], ok, info, lines)

    first = None
    with concurrent.futures.ThreadPoolExecutor(max_workers=8) as ex:
        results = list(ex.map(one, combos))
    for (elem, pages), tf, cap, mod, events, nruns, ok, info, lines in results:
        nbytes = round(pages * 4096)
        odd = nbytes % 4096 != 0
        divides = nbytes % elem == 0 and not odd
        ctx.cov["evaluations"] += events
        if ok is None:
            continue
        ctx.cov["traces_validated_against_impl"] += nruns
        if first is None or cap < first[3]:
            first = (tf, elem, pages, cap, mod)
        ctx.sample({"elem": elem, "bytes": nbytes, "trace_head": [json.loads(l) for l in lines[1:4]]}, limit=2)
        if not ok:
            what = " ".join(info.get("rejected", [])) + " " + " ".join(info.get("violated", []))
            sig = f"trace:{classify(ctx.prop, what)}" + ("" if divides else ":nondividing" if not odd else ":oddsize")
            ctx.violation(sig, f"elem={elem} bytes={nbytes} cap={cap}: {what[:400]}", replay_src=tf)
    return first


def self_test(ctx, first):
    """The trace spec must reject a corrupted and a truncated-in-the-middle trace."""
    tf, elem, pages, cap, mod = first
    with open(tf) as f:
        lines = f.read().splitlines()
    evs = [json.loads(l) for l in lines]
    # corrupt: change 'used' in the state of some commit; drop: remove one commit.
    idx = [i for i, e in enumerate(evs) if e["op"] == "commit"]
    if not idx:
        raise vlib.ToolError("self-test: no commit event in trace")
    i = idx[len(idx) // 2]
    bad = [dict(e) for e in evs]
    bad[i] = json.loads(json.dumps(bad[i]))
    bad[i]["st"]["used"] = (bad[i]["st"]["used"] + 1) % (cap + 1)
    p1 = ctx.path("selftest-corrupt.ndjson")
    with open(p1, "w") as f:
        f.write("\n".join(json.dumps(e) for e in bad) + "\n")
    p2 = ctx.path("selftest-drop.ndjson")
    with open(p2, "w") as f:
        f.write("\n".join(json.dumps(e) for k, e in enumerate(evs) if k != i) + "\n")
    consts = dict(cfg_consts(cap, 1000000000, 9), Modulus=mod)
    for p in (p1, p2):
        ok, _ = vlib.validate_trace(ctx, "Ring_Trace", p, consts, invariants=["Inv"], timeout=1500)
        if ok:
            raise vlib.ToolError(f"binding self-test failed: {os.path.basename(p)} was accepted")
    ctx.notes.append("binding self-test: corrupted and event-dropped traces rejected")


def quirk_demo(ctx):
    """Show that the model notices the known deviations when they are switched on
    (guards against a vacuous spec)."""
    cfg = ctx.path("ring-quirk.cfg")
    vlib.write_cfg(cfg, cfg_consts(2, 6, 2, '{"consume0_wipes_tags"}'), spec="Spec", invariants=["Inv"],
                   properties=["TagsOnConsume"])
    r = vlib.tlc(ctx, "MC_Ring", cfg, workers=2)
    if "TagsOnConsume" not in " ".join(r.violated) and "violated" not in r.out:
        raise vlib.ToolError("quirk consume0_wipes_tags not detected by TagsOnConsume: spec is vacuous")
    ctx.notes.append("non-vacuity: model with quirk consume0_wipes_tags violates TagsOnConsume")


def run(ctx):
    vlib.build_harness()
    c02 = ctx.prop == "C02"
    maxtags = 2 if c02 else 0
    if ctx.thorough():
        caps = [(1, 4), (2, 7), (3, 9), (4, 10)] if c02 else [(1, 5), (2, 8), (3, 10), (4, 12), (5, 12)]
        combos = [(1, 1), (2, 1), (4, 1), (8, 1), (16, 1), (1, 2), (4, 2), (16, 2), (1, 3), (8, 3), (16, 3), (1024, 1), (3, 1)]
        runs, ops = 12, 400
    else:
        caps = [(1, 4), (2, 6), (3, 8)] if c02 else [(1, 4), (2, 6), (3, 8), (4, 10)]
        combos = [(16, 1), (4, 1), (8, 2), (1024, 1), (3, 1)]
        runs, ops = 6, 250
    for cap, total in caps:
        model_and_replay(ctx, cap, total, maxtags, ["page", "sub"])
    first = random_traces(ctx, combos, runs, ops, c02)
    if first and not ctx.violations:
        self_test(ctx, first)
    if c02:
        quirk_demo(ctx)
    ctx.assumptions += [
        "client discipline: at most one live window per stream side, one commit/consume per window, writes stay inside the window",
        "tags are committed with positions < n (tags beyond the commit are C12's subject)",
        "TLC exhaustive only up to the listed capacities; larger capacities by validated random traces",
    ]
    return vlib.finish(ctx, "model_checking", extra_cov={
        "rule": "distinct = distinct model transitions replayed on the real stream (per element layout); "
                "traces = cover paths + random runs validated by TLC; evaluations = real stream operations executed",
        "caps_exhaustive": [c for c, _ in caps],
        "trace_element_sizes_pages": combos})


def replay(ctx, path):
    vlib.build_harness()
    with open(path) as f:
        head = f.read(1)
    if head == "{":
        with open(path) as f:
            first = f.readline()
        try:
            d = json.loads(first)
        except Exception:
            d = None
        if d and d.get("kind") == "ring-replay":
            pf = ctx.path("p.ndjson")
            with open(pf, "w") as f:
                f.write(json.dumps(d["path"]) + "\n")
            res = vlib.vh_json(["ring-replay", "--paths", pf, "--cap", d["cap"], "--elem", d["elem"]])
            print(json.dumps(res))
            ctx.cleanup()
            return 1 if res["nfail"] else 0
    # otherwise: an ndjson trace; cap from its reset event
    with open(path) as f:
        e0 = json.loads(f.readline())
    cap = e0.get("cap")
    if cap is None:
        print("cannot determine capacity from trace"); return 2
    ok = False
    for mod in (251, 65521, 1 << 24, 1 << 30):
        ok, info = vlib.validate_trace(ctx, "Ring_Trace", path, dict(cfg_consts(cap, 1000000000, 9), Modulus=mod), invariants=["Inv"])
        if ok:
            break
    print("accepted" if ok else f"rejected: {info}")
    ctx.cleanup()
    return 0 if ok else 1
