"""C20: the documented AX.25 receive chains as a reliable frame channel
(specs/Ax25Link.tla, Ax25Link_Trace.tla).

1. TLC checks on Ax25Link.tla that the digital back end of both chains is the
   identity on frames: Deframe . [Descramble] . NrziDecode applied to
   [Scramble] . NrziEncode . HDLC-frame of every pair of small payloads after a
   flag preamble returns exactly the two payloads (Hdlc.tla automaton and
   BlockFns.tla functions: the same definitions the per-block checks C09/C13
   bind to the real NrziDecode, Descrambler and HdlcDeframer).
2. impl -> spec: independent modulators in the harness (continuous-phase
   Bell-202 AFSK; G3RUH-scrambled NRZI 2-FSK at +-3 kHz as complex baseband)
   produce transmissions over the property's domain; the chains are assembled
   exactly as in examples/ax25-1200-rx.rs and examples/ax25-9600-rx.rs (I/Q
   path, ZeroCrossing clock recovery) and run by Graph and MTGraph; every
   transmitted and delivered payload is logged and TLC validates each run
   against the channel specification: Deliver(f) is enabled only for the next
   undelivered transmitted frame, the run ends Ok with nothing undelivered.
   Each scenario is run on both runners with the same signal.
The analog front end is floating-point DSP and is bound as a black box; see
DESIGN.md for what that means for this property.
"""
import json, os, random
from lib import vlib
from checks import blocks

LABELS = {"delivered_not_transmitted", "not_next_frame", "run_failed", "frames_lost", "rejected"}
RATES = {"1200": [44100, 48000, 50000], "9600": [50000, 100000]}


def model(ctx, alphabet, maxlen):
    cfg = ctx.path("ax25.cfg")
    with open(cfg, "w") as f:
        f.write(f"CONSTANTS\n Alphabet = {{{', '.join(map(str, alphabet))}}}\n MaxLen = {maxlen}\nSPECIFICATION Spec\nINVARIANT BackEndIdentity\nCHECK_DEADLOCK FALSE\n")
    r = vlib.tlc(ctx, "Ax25Link", cfg, workers=8, timeout=1700)
    if r.violated or not r.ok:
        raise vlib.ToolError(f"Ax25Link.tla: back end is not the identity on the model: {r.out[-2500:]}")
    ctx.cov["states"] += r.distinct
    ctx.cov["transitions"] += r.generated


def scenarios(ctx, per_cell):
    rnd = random.Random(ctx.seed * 7919 + 20)
    out = []
    n = 0
    for chain in ("1200", "9600"):
        for rate in RATES[chain]:
            for k in range(per_cell):
                nfr = rnd.choice([1, 1, 2, 3, 5, 8]) if k else 8
                frames = []
                for _ in range(nfr):
                    cls = rnd.choice(["random", "random", "stuffing", "ones", "zeros"])
                    ln = rnd.choice([10, 11, 17, 60, 150, 299, 300, rnd.randint(10, 300)])
                    frames.append({"class": cls, "len": ln})
                base = {"chain": chain, "rate": rate, "frames": frames, "preamble": rnd.choice([20, 21, 40, 100, rnd.randint(20, 100)]),
                        "gap": rnd.choice([2, 2, 3, 5, 9]), "phase": round(rnd.uniform(0, 6.2831), 4), "toff": round(rnd.random(), 4),
                        "seed": rnd.randrange(1 << 30)}
                if k % 4 == 3:
                    base["stream_bytes"] = rnd.choice([65536, 131072, 262144])
                for runner in ("graph", "mtgraph"):
                    n += 1
                    out.append(dict(base, runner=runner, id=f"{n}:{chain}@{rate}/{runner}"))
    # long streams (many transmissions back to back): positions beyond 2^22 samples, where
    # f32 sample counters lose sub-sample resolution
    # (2^22 at 9600 baud, 2^24 at both: 232 frames of ~265 bytes are 18M samples of 1200-baud audio)
    for chain, rate, nfr, lens in (("9600", 50000, 440, (200, 300)), ("1200", 44100, 232, (230, 300))) + \
            ((("9600", 100000, 260, (250, 300)), ("1200", 50000, 210, (230, 300)), ("9600", 50000, 1550, (250, 300))) if ctx.thorough() else ()):
        frames = [{"class": rnd.choice(["random", "random", "stuffing"]), "len": rnd.randint(*lens)} for _ in range(nfr)]
        base = {"chain": chain, "rate": rate, "frames": frames, "preamble": 30, "gap": 2, "phase": 1.0, "toff": 0.31, "seed": rnd.randrange(1 << 30)}
        for runner in ("graph", "mtgraph"):
            n += 1
            out.append(dict(base, runner=runner, id=f"{n}:{chain}@{rate}/{runner}/long"))
    return out


def run_scenarios(ctx, scs, tag):
    import concurrent.futures
    scs = sorted(scs, key=lambda s: -len(s["frames"]) * (300 if len(s["frames"]) > 20 else 1))
    chunks = [scs[i::12] for i in range(12) if scs[i::12]]

    def one(i):
        sf, of = ctx.path(f"{tag}-sc{i}.ndjson"), ctx.path(f"{tag}-tr{i}.ndjson")
        with open(sf, "w") as f:
            for s in chunks[i]:
                f.write(json.dumps(s) + "\n")
        res = vlib.vh_json(["ax25-run", "--scenarios", sf, "--out", of], timeout=3000)
        return of, res
    files = []
    with concurrent.futures.ThreadPoolExecutor(max_workers=12) as ex:
        for of, res in ex.map(one, range(len(chunks))):
            files.append(of)
            ctx.cov["traces_validated_against_impl"] += res["scenarios"]
    return files


def report(ctx, fails, by_id):
    for label, h, ev, tf, hdr_line, evno in fails:
        sc = by_id.get(h.get("id"), {})
        msg = ev.get("msg", "")[:120] if label == "run_failed" else ""
        sig = f"ax25-{h.get('chain')}:{label}" + (":" + "".join(c if c.isalnum() else "_" for c in msg)[:60] if msg else "")
        ctx.violation(sig, f"{label}: chain {h.get('chain')} at {h.get('rate')} Hz on {h.get('runner')} ({h.get('nframes')} frames, preamble {h.get('preamble')}, gap {h.get('gap')}): event {ev if 'data' not in ev else {'ev': ev['ev'], 'len': len(ev['data'])}}",
                      replay_obj={"kind": "ax25", "scenario": sc})


def self_test(ctx, tf):
    """Binding: a trace with one delivered frame removed, duplicated, reordered or altered must be rejected."""
    with open(tf) as f:
        lines = [json.loads(l) for l in f]
    rx = [i for i, e in enumerate(lines) if e["ev"] == "rx"]
    two = [i for i in rx if i + 1 < len(lines) and lines[i + 1]["ev"] == "rx" and lines[i]["data"] != lines[i + 1]["data"]]
    if not rx or not two:
        raise vlib.ToolError("self-test needs a scenario with two delivered frames")
    muts = {"drop": lines[:rx[0]] + lines[rx[0] + 1:], "dup": lines[:rx[0]] + [lines[rx[0]]] + lines[rx[0]:],
            "swap": lines[:two[0]] + [lines[two[0] + 1], lines[two[0]]] + lines[two[0] + 2:],
            "alter": lines[:rx[0]] + [dict(lines[rx[0]], data=[b ^ 1 if k == 3 else b for k, b in enumerate(lines[rx[0]]["data"])])] + lines[rx[0] + 1:]}
    want = {"drop": {"frames_lost", "not_next_frame"}, "dup": {"not_next_frame"}, "swap": {"not_next_frame"}, "alter": {"delivered_not_transmitted"}}
    for name, ls in muts.items():
        p = ctx.path(f"selftest-{name}.ndjson")
        with open(p, "w") as f:
            f.write("\n".join(json.dumps(e, separators=(',', ':')) for e in ls) + "\n")
        fails = blocks.judge(ctx, [p], mod="Ax25Link_Trace")
        if not ({f[0] for f in fails} & want[name]):
            raise vlib.ToolError(f"binding self-test: corrupted trace ({name}) was accepted")
    ctx.notes.append("binding self-test: dropped, duplicated, swapped and altered deliveries are all rejected by Ax25Link_Trace")


def run(ctx):
    vlib.build_harness()
    th = ctx.thorough()
    model(ctx, [0, 255, 126] if not th else [0, 255, 126, 63], 2)
    scs = scenarios(ctx, 40 if not th else 600)
    by_id = {s["id"]: s for s in scs}
    ctx.cov["distinct_nontrivial"] += len(scs) // 2
    ctx.sample(scs[0])
    ctx.sample(scs[len(scs) // 2 + 1])
    files = run_scenarios(ctx, scs, "C20")
    fails = blocks.judge(ctx, files, mod="Ax25Link_Trace")
    report(ctx, fails, by_id)
    for tf in files:
        with open(tf) as f:
            ctx.cov["evaluations"] += sum(1 for l in f if '"ev":"rx"' in l or '"ev":"tx"' in l)
    if not ctx.violations:
        self_test(ctx, files[0])
    ctx.assumptions += [
        "noiseless, full-scale, unfiltered transmit signal (continuous-phase AFSK 1200/2200 Hz; 2-FSK +-3 kHz baseband), 1000-2000 samples of silence before and 12000 (audio) / 40000 (I/Q) after: the FFT filters emit whole blocks only, so the last partial block (< fft_size samples) of a finite recording stays in the filter; the property quantifies over frames in a stream, not over frames cut off by the end of a recording",
        "the 9600 chain is the example's I/Q path with ZeroCrossing in the clock-recovery position, as the property words it",
        "the analog front end is bound as a black box by sampling the property's domain; the for-all over payloads is exhaustive only for the digital back end on the TLC model",
    ]
    return vlib.finish(ctx, "exploration", extra_cov={
        "rule": "states/transitions = TLC on Ax25Link.tla (back-end identity over all small payload pairs); traces = transmissions run through the real chains (each on both runners) and validated by TLC against the channel spec; evaluations = transmitted + delivered frames compared byte for byte"})


def replay(ctx, path):
    vlib.build_harness()
    d = json.load(open(path))
    sc = d["replay"]["scenario"]
    files = run_scenarios(ctx, [sc], "replay")
    fails = blocks.judge(ctx, files, mod="Ax25Link_Trace")
    for f in fails:
        print("FAIL", f[0], json.dumps(f[1]))
    ctx.cleanup()
    return 1 if fails else 0
