"""C16: finite sources and the repeat counter (specs/Repeat.tla, Sources.tla).

1. TLC: Repeat.tla over all call sequences (again/done/count) for
   finite(0..3) and infinite; every transition is replayed on the real
   rustradio::Repeat comparing return values, count() and done() after each
   call (no call sequence may panic).
2. TLC: Sources.tla (emitter protocol): EOF exactly when repeat*len samples are
   out, never for an infinite repeat, one marker tag set per repetition on its
   first sample, `first` once; all drain schedules on capacity 4.
3. Real VectorSource, FileSource and SigMFSource (recording and archive, with
   members in every order and unrelated members) for data lengths 0..beyond
   capacity x repeat {0,1,2,3,infinite} under TLC-enumerated and random drain
   schedules; TLC compares the recorded output with BlockFns!VecSource (data
   repeated r times, exact count, marker tags) and checks the EOF laws.
"""
import json, os
from lib import vlib
from checks import blocks

LABELS = {"fn_out", "fn_tags", "eof_infinite", "eof_missing", "panic", "err", "prefix", "final_out", "unsettled", "constructor", "leak", "window"}


def repeat_model_and_replay(ctx):
    cfg = ctx.path("repeat.cfg")
    with open(cfg, "w") as f:
        f.write("CONSTANTS\n Starts <- StartsDef\n MaxCalls = 5\nSPECIFICATION SpecE\nINVARIANT NeverNegative\nINVARIANT CountsCalls\nCHECK_DEADLOCK FALSE\n")
    r = vlib.tlc(ctx, "MC_Repeat", cfg, workers=1)
    if r.violated or not r.ok:
        raise vlib.ToolError(f"Repeat.tla violates its invariants: {r.out[-1500:]}")
    ctx.cov["states"] += r.distinct
    ctx.cov["transitions"] += r.generated
    edges = [json.loads(s) for s in r.lines("EDGE")]
    inits = sorted(set(json.dumps(e["from"], sort_keys=True) for e in edges if e["from"]["count"] == 0 and e["from"]["last"] == "-"))
    allpaths, nd = [], 0
    for k in inits:
        # edges reachable from this initial state: same `rem` lineage is implied by the graph
        paths, n = vlib.cover_paths([dict(e) for e in edges], init_key=k)
        paths = [p for p in paths if p and json.dumps(p[0]["from"], sort_keys=True) == k]
        allpaths += paths
        nd = max(nd, n)
    pf = ctx.path("repeat-paths.ndjson")
    with open(pf, "w") as f:
        for p in allpaths:
            f.write(json.dumps([vlib.strip(e) for e in p]) + "\n")
    res = vlib.vh_json(["repeat-replay", "--paths", pf])
    ctx.cov["evaluations"] += res["steps"]
    ctx.cov["traces_validated_against_impl"] += res["paths"]
    ctx.cov["distinct_nontrivial"] += nd
    ctx.sample({"repeat_path": [e["act"] for e in allpaths[-1]], "start": allpaths[-1][0]["from"]["rem"]})
    for fl in res["fails"]:
        ctx.violation(f"Repeat:{fl['act']}:start{fl['start']}",
                      f"Repeat started at {fl['start']}: step {fl['step']} {fl['act']} returned {fl['got']} expected {fl['want']} (count_ok={fl['count_ok']}, done_ok={fl['done_ok']})",
                      replay_obj={"kind": "repeat-replay", "path": [vlib.strip(e) for e in allpaths[fl["path"]]]})


def sources_model(ctx):
    cfg = ctx.path("sources.cfg")
    with open(cfg, "w") as f:
        f.write("CONSTANTS\n Cap = 4\n Lens <- LensDef\n Repeats <- RepeatsDef\n MaxOut = 30\nSPECIFICATION Spec\nINVARIANT Inv\nCHECK_DEADLOCK FALSE\n")
    r = vlib.tlc(ctx, "MC_Sources", cfg, workers=4)
    if r.violated or not r.ok:
        raise vlib.ToolError(f"Sources.tla violates its invariants: {r.out[-1500:]}")
    ctx.cov["states"] += r.distinct
    ctx.cov["transitions"] += r.generated


def source_table(thorough):
    t = []
    F = blocks.F

    def E(block, params, kind, n, big=False, sched=False, **kw):
        rep = params.get("repeat", 1)
        e = blocks.B(block, params, kind, n, big=big, sched=sched, close=False, extra=kw or None)
        if rep < 0:
            e["fn"] = F("vecsource", repeat=(400 if n else 0))
            e["infinite"] = n > 0
            e["no_settle"] = True
        else:
            e["fn"] = F("vecsource", repeat=rep)
            e["finite_source"] = True
        if not block.startswith("VectorSource"):
            e["fn"]["notags"] = True
        t.append(e)
    reps = [0, 1, 2, 3, -1]
    for rep in reps:
        for n in ([0, 1, 3, 4, 5, 9] if thorough else [0, 1, 4, 9]):
            E("VectorSource<Big>", {"repeat": rep}, "ramp", n, big=True, sched=(n in (4, 9) and rep in (1, 2)))
        for n in ([0, 100, 4096, 4097, 9000] if thorough else [0, 100, 4097]):
            E("VectorSource<u8>", {"repeat": rep}, "bytes", n)
            E("FileSource<u8>", {"repeat": rep}, "bytes", n)
            E("SigMFSource<u8>", {"repeat": rep}, "bytes", n)
        for n in [0, 7, 1500]:
            E("FileSource<u32>", {"repeat": rep}, "ramp", n)
        E("SigMFSource<i32>", {"repeat": rep}, "small", 1200)
        for order in range(6 if thorough else 3):
            E("SigMFSource<u8>", {"repeat": rep, "archive": True, "order": order}, "bytes", [100, 4097, 0, 9000, 5, 512][order])
    # trailing partial sample in the file: dropped at EOF, must not shift the next repetition
    for rep in (1, 2):
        for extra in (1, 3):
            E("FileSource<u32>", {"repeat": rep, "extra": extra}, "ramp", 9)
    # files longer than the 8 KiB read-ahead buffer of the reader: reads come back short in mid-file
    E("FileSource<u8>", {"repeat": 1}, "bytes", 12000)
    E("FileSource<u32>", {"repeat": 2}, "ramp", 3000)
    # the same for a SigMF recording whose data file ends inside a sample
    for rep in (1, 2, 3):
        for n, extra in ((9, 1), (9, 3), (1024, 2)):
            E("SigMFSource<i32>", {"repeat": rep, "extra": extra}, "small", n)
    # ... also when the whole samples end exactly at a read boundary (a read = the free output
    # space; the stream holds 1024 u32), so that the stray bytes arrive alone in the next read
    for rep in (2, 3):
        for n, extra in ((1024, 2), (1024, 1), (2048, 3), (512, 1)):
            E("FileSource<u32>", {"repeat": rep, "extra": extra}, "ramp", n)
    return t


def run(ctx):
    vlib.build_harness()
    repeat_model_and_replay(ctx)
    sources_model(ctx)
    th = ctx.thorough()
    table = source_table(th)
    scheds = blocks.tlc_schedules(ctx, 6 if not th else 7, 5 if not th else 6)
    # for sources only the drain/work part of a schedule matters
    scheds = [[a for a in s if a["op"] != "feed"] for s in scheds]
    seen, uniq = set(), []
    for s in scheds:
        k = json.dumps(s)
        if k not in seen and len(s) >= 3:
            seen.add(k)
            uniq.append(s)
    specs = blocks.make_specs(ctx, table, uniq, 6 if th else 5, "none", 1 if th else 2, probes_close=False)
    for s in specs:
        # the tag oracle applies to VectorSource only
        if s.get("fn", {}).get("notags"):
            s["fn"] = {"kind": "vecsource_notags", "p": s["fn"]["p"]}
        if s.get("no_settle") and s["mode"] == "ref":
            s["mode"] = "random"
            s["steps"] = 60
            s["style"] = 1
    ctx.cov["distinct_nontrivial"] += len(set((s["block"], json.dumps(s["params"]), s["len"], s["mode"], json.dumps(s.get("sched")), s["seed"]) for s in specs))
    ctx.sample({k: v for k, v in specs[3].items() if k in ("block", "params", "len", "mode", "sched", "fn")})
    files = blocks.run_bench(ctx, specs, "C16")
    fails = blocks.judge(ctx, files)
    blocks.report(ctx, fails, LABELS)
    if not [v for v in ctx.violations if not v[0].startswith("Repeat")]:
        blocks.self_test(ctx, files[0])
    ctx.assumptions += [
        "an infinite repeat is observed for a bounded number of work() calls (prefix of data^400)",
        "FileSource / SigMFSource carry no marker tags (only VectorSource documents them)",
        "a trailing partial sample in a file is not data (dropped at EOF)",
    ]
    return vlib.finish(ctx, "model_checking", extra_cov={
        "rule": "states/transitions: TLC on Repeat.tla, Sources.tla and schedule enumeration; traces = Repeat call paths replayed + source scenarios judged by TLC against BlockFns!VecSource and the EOF laws",
    })


def replay(ctx, path):
    with open(path) as f:
        head = f.read(200)
    if '"repeat-replay"' in head:
        d = json.load(open(path))
        pf = ctx.path("p.ndjson")
        with open(pf, "w") as f:
            f.write(json.dumps(d["replay"]["path"]) + "\n")
        res = vlib.vh_json(["repeat-replay", "--paths", pf])
        print(json.dumps(res))
        ctx.cleanup()
        return 1 if res["nfail"] else 0
    return blocks.replay(ctx, path)
