"""C18: stream buffers release every mapping and descriptor; the halves alias
(specs/Mmap.tla).

`vh mmap-run` creates and drops buffers in random orders from several threads
(sizes k*page and non-multiples, element sizes 1 .. 16384, mapping failures forced
with RLIMIT_AS and, call by call, with strace's system call fault injection: the
first and the MAP_FIXED second mapping of a set-up each made to fail) under strace; the system call log is projected to ndjson
(addresses -> (region id, offset)) and judged by TLC against Mmap_Trace:
every successful new leaves exactly two halves mapping file offset 0 and a
closed descriptor, every failed new leaves nothing, every drop unmaps exactly
its two halves, munmap only hits live buffer mappings, nothing is left at
quiescent markers (also cross-checked with /proc/self/fd and /proc/self/maps).
Aliasing is probed through the window API for every byte i of a one-page buffer
(value written at i+size read back at i).
The protocol design behind the calls is MmapProto.tla (model-checked here with
other code mapping into every hole; three wrong designs refuted); every traced
call is also one step of that design (labels proto_*).
"""
import json, os, random, re, subprocess
from lib import vlib

LINE = re.compile(r'^(\d+)\s+(\w+)\((.*)\)\s+=\s+(0x[0-9a-f]+|-?\d+)(.*)$')


def strace_lines(path):
    """Complete system call lines of an strace -f log: a call split into
    `... <unfinished ...>` / `<... call resumed> ...` (another thread's call was
    reported in between) is put together again, at the position where it
    finished. A buffer mapping call that still cannot be parsed is a tool error,
    never a silently dropped event."""
    pending = {}
    for raw in open(path):
        line = raw.rstrip("\n")
        m = re.match(r'^(\d+)\s+(.*) <unfinished \.\.\.>$', line)
        if m:
            pending[m.group(1)] = m.group(2)
            continue
        m = re.match(r'^(\d+)\s+<\.\.\. (\w+) resumed>(.*)$', line)
        if m:
            head = pending.pop(m.group(1), None)
            if head is None:
                raise vlib.ToolError(f"strace log {path}: resumed call without a start: {line}")
            line = f"{m.group(1)} {head}{m.group(3)}"
        if not LINE.match(line.strip()) and re.match(r'^\d+\s+(mmap|munmap|openat|close|ftruncate)\(', line):
            raise vlib.ToolError(f"strace log {path}: cannot parse {line!r}")
        yield line


def gen_script(rnd, nops, threads, big=False, alias_all=False):
    ops, live, slot = [[0, "mark", 0]], [], 0
    for _ in range(nops):
        c = rnd.random()
        if c < 0.5 or not live:
            slot += 1
            r = rnd.random()
            if r < 0.6:
                size = 4096 * rnd.choice([1, 1, 2, 3, 4, 8, 16])
            elif r < 0.8:
                size = rnd.choice([100, 4097, 4095, 6000, 12289, 1])
            else:
                size = 4096 * rnd.randint(1, 6)
            if big:
                size = 4096 * rnd.choice([4096, 8192, 16384])   # 16..64 MiB: fails under RLIMIT_AS
            elem = rnd.choice([1, 1, 4, 1, 4, 3, 6, 8, 12, 24, 4096, 8192, 16384, 0])
            ops.append([rnd.randrange(threads), "new", slot, size, elem])
            if size % 4096 == 0:
                live.append((slot, size, elem))
        elif c < 0.8:
            s = live.pop(rnd.randrange(len(live)))
            ops.append([rnd.randrange(threads), "drop", s[0]])
        else:
            s = rnd.choice(live)
            if s[2] == 1:
                ops.append([rnd.randrange(threads), "alias", s[0], rnd.randrange(s[1] - 1)])
    if alias_all:
        slot += 1
        ops.append([0, "new", slot, 4096, 1])
        for i in range(4095):
            ops.append([i % threads, "alias", slot, i])
        live.append((slot, 4096, 1))
    for s in live:
        ops.append([rnd.randrange(threads), "drop", s[0]])
    ops.append([rnd.randrange(threads), "mark", 1])
    return ops


def project(strace_path, out_events, tf):
    """strace log + harness events -> ndjson for Mmap_Trace."""
    hv = [json.loads(l) for l in open(out_events)]
    news = {e["slot"]: e for e in hv if e["ev"] == "new"}
    marks = {e["n"]: e for e in hv if e["ev"] == "mark"}
    aliases = [e for e in hv if e["ev"] == "alias" and not e.get("skipped")]
    regions = []   # (id, base, total_len)
    maps = []      # every successful non-fixed mapping in time order: ("b", region id, base, len) buffer
                   # reservations, ("f", None, base, len) everything else (allocator, thread stacks, libraries)
    evs = []
    inside = False
    base_fds = marks.get(0, {}).get("fds", 0)
    for line in strace_lines(strace_path):
        m = LINE.match(line.strip())
        if not m:
            continue
        pid, call, args, ret, rest = m.groups()
        if call == "openat" and "/nonexistent-vh-mark/" in args:
            tag = re.search(r'/nonexistent-vh-mark/([\w-]+)', args).group(1)
            parts = tag.split("-")
            if parts[0] == "quiet":
                mk = marks.get(int(parts[1]), {})
                evs.append({"ev": "quiet", "fds": mk.get("fds", -1), "maps": mk.get("maps", -1), "base_fds": base_fds})
            elif parts[1] == "begin":
                inside = True
                evs.append({"ev": "begin", "op": parts[0], "slot": int(parts[2]), "size": news.get(int(parts[2]), {}).get("size", 0)})
            else:
                inside = False
                e = {"ev": "end", "op": parts[0], "slot": int(parts[2]), "result": "-", "size": 0, "elem": 1}
                if parts[0] == "new":
                    n = news.get(int(parts[2]), {})
                    e["result"] = n.get("result", "?")
                    e["size"] = n.get("size", 0)
                    e["elem"] = n.get("elem", 1)
                evs.append(e)
            continue
        retv = int(ret, 16) if ret.startswith("0x") else int(ret)
        if call == "mmap" and ret.startswith("0x"):
            a = [x.strip() for x in args.split(",")]
            if "MAP_FIXED" not in a[3] and not (inside and "MAP_SHARED" in a[3] and int(a[4]) >= 0):
                # memory of other code in the process (under RLIMIT_AS glibc falls back to small
                # anonymous mappings per allocation and unmaps them again, also inside an operation)
                maps.append(("f", None, retv, int(a[1])))
        if not inside:
            continue
        if call == "openat":
            evs.append({"ev": "sys", "call": "openat", "ret": retv if retv >= 0 else -1})
        elif call == "close":
            evs.append({"ev": "sys", "call": "close", "fd": int(args.strip())})
        elif call == "ftruncate":
            a = args.split(",")
            evs.append({"ev": "sys", "call": "ftruncate", "fd": int(a[0]), "len": int(a[1])})
        elif call == "mmap":
            a = [x.strip() for x in args.split(",")]
            if "MAP_SHARED" not in a[3] or int(a[4]) < 0:
                continue
            ln, fd, foff = int(a[1]), int(a[4]), int(a[5], 0)
            ok = not ret.startswith("-") and retv != -1
            fixed = "MAP_FIXED" in a[3]
            if fixed:
                want = int(a[0], 16)
                reg = next((r for r in reversed(regions) if r[1] <= want < r[1] + r[2]), None)
                r_id, off = (reg[0], want - reg[1]) if reg else (-1, 0)
            else:
                r_id, off = len(regions) + 1, 0
                if ok:
                    regions.append((r_id, retv, ln))
                    maps.append(("b", r_id, retv, ln))
            evs.append({"ev": "sys", "call": "mmap", "ok": ok, "r": r_id, "off": off, "len": ln, "fd": fd, "foff": foff, "fixed": fixed})
        elif call == "munmap":
            a = [x.strip() for x in args.split(",")]
            addr, ln = int(a[0], 16), int(a[1])
            newest = next((m_ for m_ in reversed(maps) if m_[2] <= addr < m_[2] + m_[3]), None)
            if newest and newest[0] == "f":
                continue     # the allocator (or a thread stack) giving back its own memory
            reg = next((r for r in reversed(regions) if r[1] <= addr < r[1] + r[2]), None)
            evs.append({"ev": "sys", "call": "munmap", "r": reg[0] if reg else -1, "off": addr - reg[1] if reg else 0, "len": ln})
    for a in aliases:
        evs.append({"ev": "alias", "i": a["i"], "wrote": a["wrote"], "read": a["read"]})
    with open(tf, "w") as f:
        for e in evs:
            f.write(json.dumps(e, separators=(',', ':')) + "\n")
    return evs, hv


def one_run(ctx, name, script, inject=None):
    """inject = k: the k-th mmap call of every thread fails with ENOMEM (strace
    fault injection; used with a single-threaded script, see inject_runs)."""
    sf, of, st, tf = (ctx.path(f"{name}.{x}") for x in ("json", "out", "strace", "ndjson"))
    with open(sf, "w") as f:
        json.dump(script, f)
    cmd = ["strace", "-f", "-o", st, "-e", "trace=openat,ftruncate,mmap,munmap,close"]
    if inject:
        cmd += ["-e", f"inject=mmap:error=ENOMEM:when={inject}"]
    cmd += [vlib.VH, "mmap-run", "--script", sf, "--out", of]
    if os.path.exists(st):
        os.remove(st)
    r = subprocess.run(cmd, stdout=subprocess.PIPE, stderr=subprocess.PIPE, text=True, timeout=900)
    if r.returncode != 0:
        # the traced program died (abort inside the code under test, e.g. a panic in a
        # destructor): that is data, not a tool problem, as long as strace itself worked
        log = open(st).read() if os.path.exists(st) else ""
        m = re.search(r'\+\+\+ (killed by \w+|exited with [1-9]\d*)', log)
        if not m:
            raise vlib.ToolError(f"strace run failed: {r.stderr[-500:]}")
        last = [e for e in (json.loads(l) for l in open(of)) ] if os.path.exists(of) else []
        rp = ctx.path("mmap-replay.json")
        with open(rp, "w") as f:
            json.dump({"script": script, "inject": inject, "failed": "process_aborted", "event": {"how": m.group(1), "stderr": r.stderr[-300:]}}, f)
        ctx.violation("process_aborted", f"process_aborted ({m.group(1)}) after {len(last)} operations: {r.stderr.strip()[-200:]} (script {name})", replay_src=rp)
        return [], [], 0
    evs, hv = project(st, of, tf)
    cfg = ctx.path(f"{name}.cfg")
    with open(cfg, "w") as f:
        f.write("SPECIFICATION TraceSpec\nPOSTCONDITION TraceAccepted\nCHECK_DEADLOCK FALSE\n")
    t = vlib.tlc(ctx, "Mmap_Trace", cfg, workers=1, timeout=1500, env={"TRACE": tf}, dfs=True, xmx="4g")
    if "TRACE-REJECTED" in t.out:
        raise vlib.ToolError(f"Mmap_Trace could not process {tf}:\n{t.out[-1200:]}")
    fails = []
    for m in re.finditer(r'CHECK-FAILED (\d+) (\w+)', t.out):
        i = int(m.group(1)) - 1
        fails.append((m.group(2), evs[i] if i < len(evs) else {}))
    if t.code != 0 and not fails:
        raise vlib.ToolError(f"TLC failed on {tf}:\n{t.out[-1200:]}")
    ctx.cov["evaluations"] += len(evs)
    ctx.cov["traces_validated_against_impl"] += 1
    nsys = sum(1 for e in evs if e["ev"] == "sys")
    for label, ev in fails:
        rp = ctx.path("mmap-replay.json")
        with open(rp, "w") as f:
            json.dump({"script": script, "inject": inject, "failed": label, "event": ev}, f)
        ctx.violation(f"{label}", f"{label} at {json.dumps(ev)[:300]} (script {name})", replay_src=rp)
    return evs, hv, nsys


def shared_mmaps(st):
    """(ordinal among the main thread's mmap calls, fixed?, injected?) of every
    buffer mapping call (MAP_SHARED with a descriptor) in a strace log."""
    out, n, main = [], 0, None
    for line in strace_lines(st):
        m = LINE.match(line.strip())
        if not m:
            continue
        pid, call, args, ret, rest = m.groups()
        main = main or pid
        if call != "mmap" or pid != main:
            continue
        n += 1
        a = [x.strip() for x in args.split(",")]
        if "MAP_SHARED" in a[3] and int(a[4]) >= 0:
            out.append((n, "MAP_FIXED" in a[3], "INJECTED" in rest))
        elif "INJECTED" in rest:
            out.append((n, None, True))
    return out


def inject_runs(ctx, th):
    """Mapping failures at every stage of the set-up: the whole script runs in
    the main thread; a first pass finds the ordinals of the buffer mapping
    calls, then each chosen one is failed with ENOMEM by strace."""
    shapes = [(4096, 1), (12288, 4), (65536, 8), (8192, 1), (4096 * 5, 4096), (16384, 8192)]
    zst = [(4096, 0)]       # zero-sized elements: refused before any system call
    ops = [[0, "mark", 0]]
    for k, (size, elem) in enumerate(shapes + zst):
        ops += [[0, "new", 200 + k, size, elem], [0, "drop", 200 + k]]
    ops.append([0, "mark", 1])
    script = {"threads": 0, "rlimit_as": 0, "ops": ops}
    evs, hv, nsys = one_run(ctx, "inj-base", script)
    if ctx.violations:
        return 0
    base_failed = {e["slot"] for e in hv if e["ev"] == "new" and e["result"] != "ok"}   # refused anyway (zero-sized elements)
    calls = shared_mmaps(ctx.path("inj-base.strace"))
    if len(calls) != 2 * len(shapes) or [c[1] for c in calls] != [False, True] * len(shapes):
        raise vlib.ToolError(f"unexpected buffer mapping calls in the calibration pass: {calls}")
    targets = calls if th else calls[:4] + calls[-2:]
    nfirst = nfixed = 0
    for (k, fixed, _) in targets:
        evs, hv, n = one_run(ctx, f"inj-{k}", script, inject=k)
        if not evs:
            continue
        inj = [c for c in shared_mmaps(ctx.path(f"inj-{k}.strace")) if c[2]]
        if len(inj) != 1 or inj[0][1] != fixed:
            raise vlib.ToolError(f"fault injection at mmap #{k} hit {inj} instead of one buffer mapping call")
        failed = [e for e in hv if e["ev"] == "new" and e["result"] != "ok" and e["slot"] not in base_failed]
        if len(failed) != 1:
            # the call failed but the stream reports success (or several fail): judged by the
            # spec where it can (halves_not_aliased); make sure it is never silent
            rp = ctx.path("mmap-replay.json")
            with open(rp, "w") as f:
                json.dump({"script": script, "inject": k, "failed": "failed_mapping_not_reported", "event": {"failed": failed}}, f)
            ctx.violation("failed_mapping_not_reported", f"failed_mapping_not_reported: mmap #{k} ({'fixed' if fixed else 'first'}) failed, creations reporting an error: {len(failed)}", replay_src=rp)
        nfirst += 0 if fixed else 1
        nfixed += 1 if fixed else 0
    ctx.notes.append(f"system call fault injection: first mapping failed in {nfirst} runs, MAP_FIXED second mapping failed in {nfixed} runs; each judged against Mmap_Trace (nothing left, nothing unmapped twice, error reported)")
    return nfirst + nfixed


def proto_model(ctx, th):
    """The protocol design (MmapProto): exhaustive with two or three buffer
    threads and other code mapping pages into every hole; each wrong design
    (quirk) must be refuted by NeverHitsOthers."""
    def c(q, threads="{1, 2}", pages=6, sizes="{1, 2}", foreign=1):
        return {"Pages": pages, "Threads": threads, "Sizes": sizes, "Foreign": foreign, "Quirks": q}
    cfg = ctx.path("mmapproto.cfg")
    for consts in ([c("{}"), c("{}", "{1, 2, 3}", 7, "{1}", 2)] if th else [c("{}")]):
        vlib.write_cfg(cfg, consts, spec="PSpec", invariants=["PInv"])
        r = vlib.tlc(ctx, "MmapProto", cfg, workers=4, timeout=1500)
        if r.violated or not r.ok:
            raise vlib.ToolError(f"MmapProto (no quirks) violates {r.violated}:\n{r.out[-1500:]}")
        ctx.cov["states"] += r.distinct
        ctx.cov["transitions"] += r.generated
    for q in ("unmap_upper_twice", "hole_before_fixed", "reserve_half"):
        vlib.write_cfg(cfg, c('{"%s"}' % q), spec="PSpec", invariants=["NeverHitsOthers"])
        r = vlib.tlc(ctx, "MmapProto", cfg, workers=4, timeout=600)
        if "NeverHitsOthers" not in " ".join(r.violated) and "violated" not in r.out:
            raise vlib.ToolError(f"MmapProto: wrong design {q} is not refuted (NeverHitsOthers is vacuous)")
    ctx.notes.append("MmapProto: protocol design exhaustive (no call of a buffer ever hits another mapping, in any interleaving with other code mapping into holes); "
                     "the wrong designs unmap_upper_twice, hole_before_fixed, reserve_half each violate NeverHitsOthers")


def run(ctx):
    vlib.build_harness()
    rnd = random.Random(ctx.seed)
    th = ctx.thorough()
    proto_model(ctx, th)
    # the accounting model itself (tiny): sanity of the operators via a fixed trace is part of one_run
    total_sys = 0
    runs = []
    for k in range(6 if th else 3):
        runs.append((f"rand{k}", {"threads": rnd.choice([1, 2, 4]), "rlimit_as": 0, "ops": gen_script(rnd, 200 if th else 60, 4)}))
    runs.append(("alias", {"threads": 2, "rlimit_as": 0, "ops": gen_script(rnd, 4, 2, alias_all=True) if th else
                           [[0, "mark", 0], [0, "new", 1, 4096, 1]] + [[i % 2, "alias", 1, i] for i in list(range(0, 4095, 9)) + [0, 1, 4093, 4094]] + [[1, "drop", 1], [0, "mark", 1]]}))
    # address-space exhaustion: each buffer is dropped right away so that only the mapping calls hit the limit
    ops = [[0, "mark", 0]]
    for k, mb in enumerate([8, 64, 16, 128, 32, 8, 256, 24] * (3 if th else 1)):
        ops += [[k % 2, "new", 100 + k, mb * 1024 * 1024, 1 + 3 * (k % 2)], [(k + 1) % 2, "drop", 100 + k]]
    ops.append([1, "mark", 1])
    runs.append(("enomem", {"threads": 2, "rlimit_as": 100 * 1024 * 1024, "ops": ops}))
    for name, script in runs:
        evs, hv, nsys = one_run(ctx, name, script)
        total_sys += nsys
        if name == "enomem":
            # a panic instead of an error is a violation (judged below), but it is a forced failure all the same
            nfail = sum(1 for e in hv if e["ev"] == "new" and e["result"] in ("err", "panic"))
            ctx.notes.append(f"RLIMIT_AS run: {nfail} of {sum(1 for e in hv if e['ev'] == 'new')} buffer creations failed with a mapping error")
            if nfail == 0:
                raise vlib.ToolError("RLIMIT_AS did not force any mapping failure")
        if name == "rand0":
            ctx.sample({"ops": script["ops"][:12], "events": evs[:12]})
    inject_runs(ctx, th)
    # binding self-test: a trace with one munmap removed must be flagged
    if not ctx.violations:
        lines = open(ctx.path("rand0.ndjson")).read().splitlines()
        k = next(i for i, l in enumerate(lines) if '"munmap"' in l)
        bad = ctx.path("selftest.ndjson")
        with open(bad, "w") as f:
            f.write("\n".join(l for i, l in enumerate(lines) if i != k) + "\n")
        cfg = ctx.path("selftest.cfg")
        with open(cfg, "w") as f:
            f.write("SPECIFICATION TraceSpec\nPOSTCONDITION TraceAccepted\nCHECK_DEADLOCK FALSE\n")
        t = vlib.tlc(ctx, "Mmap_Trace", cfg, workers=1, timeout=600, env={"TRACE": bad}, dfs=True)
        if "mapping_left_after_drop" not in t.out and "mappings_at_quiescence" not in t.out:
            raise vlib.ToolError("binding self-test failed: a dropped munmap was not flagged")
        if "proto_unfinished" not in t.out:
            raise vlib.ToolError("binding self-test failed: a dropped munmap is not a protocol deviation")
        # ... and one with the second (MAP_FIXED) mapping shortened by a page must be a protocol deviation
        k = next(i for i, l in enumerate(lines) if '"fixed":true' in l and '"ok":true' in l)
        e = json.loads(lines[k])
        e["len"] -= 4096 if e["len"] > 4096 else 1
        with open(bad, "w") as f:
            f.write("\n".join(json.dumps(e, separators=(',', ':')) if i == k else l for i, l in enumerate(lines)) + "\n")
        t = vlib.tlc(ctx, "Mmap_Trace", cfg, workers=1, timeout=600, env={"TRACE": bad}, dfs=True)
        if "proto_range" not in t.out:
            raise vlib.ToolError("binding self-test failed: a shortened second mapping is not a protocol deviation")
        ctx.notes.append("binding self-test: trace with one munmap removed is flagged (mapping left, protocol unfinished); a shortened MAP_FIXED mapping is flagged (proto_range)")
    ctx.cov["states"] += total_sys
    ctx.cov["transitions"] += total_sys
    ctx.cov["distinct_nontrivial"] += sum(len(s["ops"]) for _, s in runs)
    ctx.assumptions += [
        "operations are serialised (one at a time, from different threads) so that strace lines of different operations do not interleave",
        "aliasing is probed through the window API (bytes 0..size-2; the last byte of the second mapping is never part of a window)",
        "element sizes that do not divide the size are rejected before any system call (checked in C01)",
    ]
    return vlib.finish(ctx, "exploration", extra_cov={
        "rule": "evaluations = system calls / operation brackets / alias probes judged by TLC against Mmap_Trace; distinct_nontrivial = operations (create/drop/alias/mark) executed; states/transitions report the number of system calls replayed through the accounting spec",
    })


def replay(ctx, path):
    vlib.build_harness()
    d = json.load(open(path))
    evs, hv, n = one_run(ctx, "replay", d["script"], inject=d.get("inject"))
    ctx.cleanup()
    return 1 if ctx.violations else 0
