"""C14 (byte formats) and C17 (file sink): specs ByteFormats.tla, FileSink.tla.

C14: TLC enumerates codec bit patterns (NaN payloads, infinities, extremes) and
every split of a 10-byte stream into read() results for sample sizes 1/4/8; the
harness serialises/parses each value and drives FileSource (through a FIFO,
one read per piece) and TcpSource (loopback) with each split; TLC judges the
recorded events (LE bytes, parse inverse, samples = consecutive groups for every
split). File sink -> file source round trips over lengths 0..beyond capacity
and the AU encoder/decoder oracles (bench, BlockFns-style) complete it.

C17: TLC checks the write-flush-consume protocol with a crash at every step;
the 15 mode x initial-state cases run on the real constructors; a child process
streams through the real sink and is killed at every enumerated crash point
(cfg-guarded points) and at random times; the file is read back and judged.
"""
import json, os, random
from lib import vlib
from checks import blocks


def judge(ctx, mod, tf, labels_prefix):
    cfg = ctx.path(os.path.basename(tf) + ".cfg")
    extra = "CONSTANTS\n Total = 4\n MaxChunk = 2\n" if mod == "FileSink_Trace" else ""
    with open(cfg, "w") as f:
        f.write(extra + "SPECIFICATION TraceSpec\nPOSTCONDITION TraceAccepted\nCHECK_DEADLOCK FALSE\n")
    r = vlib.tlc(ctx, mod, cfg, workers=1, timeout=1500, env={"TRACE": tf}, dfs=True, xmx="4g")
    import re
    with open(tf) as f:
        lines = f.read().splitlines()
    fails = []
    for m in re.finditer(r'CHECK-FAILED (\d+) (\w+)', r.out):
        i = int(m.group(1)) - 1
        fails.append((m.group(2), json.loads(lines[i]) if i < len(lines) else {}))
    if "TRACE-REJECTED" in r.out or (r.code != 0 and not fails):
        raise vlib.ToolError(f"{mod} could not process {tf}:\n{r.out[-1500:]}")
    return fails, len(lines)


def cases_from_tlc(ctx, n):
    cfg = ctx.path("bf.cfg")
    with open(cfg, "w") as f:
        f.write(f"CONSTANTS\n N = {n}\nSPECIFICATION Spec\nINVARIANT RoundTrip\nINVARIANT SplitSums\nINVARIANT Export\nCHECK_DEADLOCK FALSE\n")
    r = vlib.tlc(ctx, "MC_ByteFormats", cfg, workers=1, timeout=600)
    if r.violated or not r.ok:
        raise vlib.ToolError(f"ByteFormats.tla: {r.violated} {r.out[-1000:]}")
    ctx.cov["states"] += r.distinct
    ctx.cov["transitions"] += r.generated
    cases = [json.loads(s) for s in r.lines("CASE")]
    return [c["v"] for c in cases if c["kind"] == "val"], [c["v"] for c in cases if c["kind"] == "split"]


def run_c14(ctx):
    th = ctx.thorough()
    vals, splits = cases_from_tlc(ctx, 10 if th else 9)
    vf, cf = ctx.path("vals.ndjson"), ctx.path("codec.ndjson")
    with open(vf, "w") as f:
        for v in vals:
            f.write(json.dumps(v) + "\n")
    res = vlib.vh_json(["codec", "--vals", vf, "--out", cf])
    ctx.cov["evaluations"] += res["events"]
    ctx.sample({"codec_value": vals[len(vals) // 2]})
    # reassembler: every split, file (FIFO) and tcp
    rnd = random.Random(ctx.seed)
    cases = []
    for s in splits:
        nbytes = sum(s["pieces"])
        for src in ("file", "tcp"):
            if src == "tcp" and not th and rnd.random() < 0.5:
                continue
            cases.append({"src": src, "size": s["size"], "bytes": [(17 * i + 3) % 251 + 1 for i in range(nbytes)], "pieces": s["pieces"]})
    # longer random streams with adversarial splits (1-byte reads, splits inside samples)
    for k in range(300 if th else 80):
        size = rnd.choice([1, 4, 8])
        nbytes = rnd.randint(0, 200)
        rest, pieces = nbytes, []
        while rest:
            p = min(rest, rnd.choice([1, 1, 2, 3, size - 1 or 1, size, size + 1, rnd.randint(1, 40)]))
            pieces.append(p)
            rest -= p
        cases.append({"src": rnd.choice(["file", "tcp"]), "size": size, "bytes": [rnd.randint(0, 255) for _ in range(nbytes)], "pieces": pieces})
    # slow reader: the output stream (4096 bytes) is left to fill up while bytes keep arriving, so
    # that reads get as small as the last few free samples, with a partial sample buffered
    for k in range(16 if th else 8):
        size = [4, 8, 4, 8, 1][k % 5]
        cap = 4096 // size
        extra = rnd.choice([size, 3 * size + 1, 40 * size + size // 2, 300])
        nbytes = cap * size + extra
        nz = rnd.choice([30, 60, 90])
        first = rnd.choice([nbytes, nbytes - 1, 1, 2, 3, 5, 7])
        pieces = [first] + ([nbytes - first] if first < nbytes else []) + [0] * nz
        # everything is in the socket before the reads without a fresh piece start, and the reader
        # takes fewer samples in total than there are bytes beyond the stream's capacity, so a
        # read never finds the socket empty (it would block)
        budget = max(0, (extra - size) // size)
        drains = []
        for _ in pieces:
            d = min(budget, rnd.choice([0, 0, 0, 1, 2, 3, 5]))
            budget -= d
            drains.append(d)
        drains[0] = 0
        if first < nbytes:
            drains[1] = 0
        cases.append({"src": "tcp", "size": size, "bytes": [rnd.randint(0, 255) for _ in range(nbytes)], "pieces": pieces, "drains": drains})
    casef, rf = ctx.path("reasm-cases.ndjson"), ctx.path("reasm.ndjson")
    with open(casef, "w") as f:
        for c in cases:
            f.write(json.dumps(c) + "\n")
    res = vlib.vh_json(["reasm", "--cases", casef, "--out", rf], timeout=1700)
    ctx.cov["evaluations"] += res["events"]
    ctx.cov["distinct_nontrivial"] += len(cases) + len(vals)
    ctx.sample({"split": cases[7]})
    tf = ctx.path("roundtrip.ndjson")
    res = vlib.vh_json(["roundtrip", "--out", tf, "--seed", ctx.seed], timeout=1700)
    ctx.cov["evaluations"] += res["events"]
    allf = ctx.path("c14-all.ndjson")
    with open(allf, "w") as out:
        for p in (cf, rf, tf):
            out.write(open(p).read())
    fails, n = judge(ctx, "ByteFormats_Trace", allf, "C14")
    ctx.cov["traces_validated_against_impl"] += n
    seen = {}
    for label, ev in fails:
        key = f"{label}:{ev.get('src', ev.get('type', ev.get('size')))}" + (f":size{ev.get('size')}" if ev.get("ev") == "reasm" else "")
        seen[key] = seen.get(key, 0) + 1
        ctx.violation(key, f"{label}: {json.dumps(ev)[:400]}", replay_obj=ev)
    # AU container: encoder output format and decoder of an independently built stream (bench + TLC oracle)
    au_specs = []
    gid = 0
    for n in (0, 1, 7, 50, 3000):
        gid += 1
        base = {"block": "AuEncode", "params": {"rate": 8000}, "len": n, "kind": "eighths", "tags": "none", "stream_bytes": 4096,
                "gid": gid, "data_seed": ctx.seed + gid, "log_inputs": True, "in_scale": 8, "tagmap": blocks.NONE, "sync": False,
                "fn": {"kind": "auenc", "p": {"rate": 8000, "den": 8}}}
        au_specs.append(dict(base, mode="ref", id=f"{gid}:ref", seed=1))
        for r in range(3):
            au_specs.append(dict(base, mode="random", steps=60 + n // 3, style=[1, 3, 4][r], id=f"{gid}:r{r}", seed=ctx.seed * 7 + r))
    for n, off in ((0, 28), (1, 28), (50, 28), (20, 24), (9, 40), (2500, 28)):
        gid += 1
        pcm = [rnd.choice([0, 1, -1, 32767, -32768, 16383, -12345, rnd.randint(-32768, 32767)]) for _ in range(n)]
        stream = [46, 115, 110, 100] + list(off.to_bytes(4, "big")) + [255] * 4 + list((3).to_bytes(4, "big")) + \
            list((8000).to_bytes(4, "big")) + list((1).to_bytes(4, "big")) + [0] * (off - 24)
        for v in pcm:
            stream += list((v & 0xffff).to_bytes(2, "big"))
        base = {"block": "AuDecode", "params": {"rate": 8000}, "data": [stream], "len": len(stream), "kind": "bytes", "tags": "none",
                "stream_bytes": 4096, "gid": gid, "data_seed": 1, "log_inputs": True, "out_scale": 32767, "tagmap": blocks.NONE,
                "sync": False, "fn": {"kind": "audec", "p": {"x": 0}}}
        au_specs.append(dict(base, mode="ref", id=f"{gid}:ref", seed=1))
        for r in range(3):
            au_specs.append(dict(base, mode="random", steps=60 + n // 3, style=[0, 1, 4][r], id=f"{gid}:r{r}", seed=ctx.seed * 11 + r))
    # SigMF recordings and archives (members in every order, unrelated members) and plain files read
    # back: the same samples come out, once per repetition (same scenarios and oracle as C16)
    from checks import sources
    src_table = [e for e in sources.source_table(th) if e["block"].startswith(("SigMFSource", "FileSource")) and e["params"].get("repeat") in (1, 2) and e["len"] <= 5000]
    src_specs = blocks.make_specs(ctx, src_table, [], 4 if th else 2, "none", 1, probes_close=False)
    for sp in src_specs:
        sp["gid"] += 1000
        if sp.get("fn", {}).get("notags"):
            sp["fn"] = {"kind": "vecsource_notags", "p": sp["fn"]["p"]}
    ctx.cov["distinct_nontrivial"] += len(src_specs)
    files = blocks.run_bench(ctx, au_specs + src_specs, "C14au")
    bf = blocks.judge(ctx, files)
    blocks.report(ctx, bf, {"fn_out", "panic", "err", "prefix", "final_out", "unsettled", "constructor"})
    ctx.assumptions += [
        "TCP may coalesce writes: the oracle for socket and pipe sources is the grouping of all bytes sent, which does not depend on how reads were split",
        "AU: inputs k/8 so that x*32767 is exact in f32; decode(encode(x)) = Q(x) follows from the two format oracles",
        "SigMF recordings/archives and plain files: the source scenarios of C16 with repeat 1 and 2 are run here too (same data comes back)",
    ]
    return vlib.finish(ctx, "model_checking", extra_cov={
        "rule": "states = TLC-enumerated codec values and read splits; traces = events judged by TLC (codec, reassembly per split, round trips, AU scenarios)"})


def run_c17(ctx):
    th = ctx.thorough()
    cfg = ctx.path("fs.cfg")
    with open(cfg, "w") as f:
        f.write("CONSTANTS\n Total = 4\n MaxChunk = 2\nSPECIFICATION Spec\nINVARIANT Durable\nCHECK_DEADLOCK FALSE\n")
    r = vlib.tlc(ctx, "FileSink", cfg, workers=4)
    if r.violated or not r.ok:
        raise vlib.ToolError(f"FileSink.tla: {r.violated} {r.out[-1000:]}")
    ctx.cov["states"] += r.distinct
    ctx.cov["transitions"] += r.generated
    mf = ctx.path("modes.ndjson")
    res = vlib.vh_json(["sink-modes", "--out", mf])
    ctx.cov["evaluations"] += res["events"]
    rnd = random.Random(ctx.seed)
    cases = []
    ks = [1, 2, 3, 5, 8, 13] if not th else list(range(1, 25))
    for point in ("sink_before_write", "sink_after_flush", "sink_after_consume"):
        for k in ks:
            cases.append({"point": point, "k": k, "packet": False, "n": 6000})
    for point in ("ncsink_before_write", "ncsink_after_flush"):
        for k in ks:
            cases.append({"point": point, "k": k * 3, "packet": True, "n": 300})
    for i in range(40 if th else 12):
        cases.append({"point": "none", "k": 1, "packet": i % 3 == 0, "n": 200000 if i % 3 else 20000, "kill_after_us": rnd.randint(200, 30000)})
    cases.append({"point": "none", "k": 1, "packet": False, "n": 3000})
    # the file cannot grow beyond fsize bytes (RLIMIT_FSIZE): a write comes back short, the next fails;
    # whatever work() acknowledged must be in the file
    for fs, chunk in ((24576, 6000), (40000, 16000), (10000, 5000), (70000, 9000)):
        cases.append({"point": "none", "k": fs % 7 + 1, "packet": False, "n": 60000, "stream": 65536, "chunk": chunk, "fsize": fs})
    cases.append({"point": "none", "k": 1, "packet": True, "n": 100})
    cf, of = ctx.path("crash-cases.ndjson"), ctx.path("crash.ndjson")
    with open(cf, "w") as f:
        for c in cases:
            f.write(json.dumps(c) + "\n")
    res = vlib.vh_json(["sink-crash", "--cases", cf, "--out", of], timeout=1700)
    ctx.cov["evaluations"] += res["events"]
    ctx.cov["distinct_nontrivial"] += len(cases) + 30
    ctx.sample({"crash_case": cases[4]})
    allf = ctx.path("c17-all.ndjson")
    with open(allf, "w") as out:
        out.write(open(mf).read())
        out.write(open(of).read())
    fails, n = judge(ctx, "FileSink_Trace", allf, "C17")
    ctx.cov["traces_validated_against_impl"] += n
    with open(of) as f:
        evs = [json.loads(l) for l in f]
    killed = sum(1 for e in evs if e["killed"])
    ctx.notes.append(f"{killed} of {len(evs)} child runs were killed before finishing (self-SIGKILL at a crash point or SIGKILL from the parent)")
    if killed < len(evs) // 3:
        raise vlib.ToolError("crash injection did not kill enough child runs: the crash hooks are not reached")
    for label, ev in fails:
        key = f"{label}:{ev.get('mode', ev.get('point'))}:{ev.get('initial', '')}" + (":packet" if ev.get("packet") else "")
        ctx.violation(key, f"{label}: {json.dumps(ev)[:400]}", replay_obj=ev)
    ctx.assumptions += [
        "'on disk' means written to the file (visible after the process is killed), not fsync-durable across power loss",
        "the 'unwritable' initial state is skipped when running as root",
    ]
    return vlib.finish(ctx, "fault_enumeration", extra_cov={
        "rule": "evaluations = mode cases + child runs killed at enumerated crash points (point x k-th occurrence) and at random times; distinct_nontrivial = distinct (crash point, k) / kill times + mode cases; all judged by TLC against FileSink_Trace"})


def run(ctx):
    vlib.build_harness()
    return run_c14(ctx) if ctx.prop == "C14" else run_c17(ctx)


def replay(ctx, path):
    d = json.load(open(path))
    print(json.dumps(d.get("replay"))[:2000])
    ctx.cleanup()
    return 1
