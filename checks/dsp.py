"""C11: DSP kernels against their definitions, on integer-valued data
(specs/Dsp.tla, BlockFns.tla FIR/FFT section, Dsp_Trace.tla).

With integer-valued samples and taps in small ranges every product and sum is
exact in f32 whatever the order of summation, so "equal to the mathematical
definition" is decidable exactly and independent of scalar/SIMD evaluation
order; the FFT filters' outputs are integers up to rounding (nearest integer
within 1e-3 is compared).

1. TLC on Dsp.tla: the overlap-add algorithm of FftFilter (block size
   FftSize(ntaps) - ntaps, tail carry) under every chunking of every small
   input equals the linear convolution, and equals the FIR output delayed by
   ntaps-1; the decimating FIR work() step under every chunking and output
   space keeps the decimation phase (equals one-shot FirFn).
2. Real FirFilter<Float/Complex> (ntaps 1..9, decimation 1..8), FftFilter,
   FftFilterFloat (ntaps 1..9 and 17, 33), FastFM, QuadratureDemod (principal
   directions, eighth turns), SinglePoleIirFilter (alpha 1/2, 1/4 on short
   inputs at a fixed binary scale) run on the drip-feed bench under
   TLC-enumerated and random schedules; TLC evaluates the definition on the
   logged inputs and compares all outputs, exact counts included.
3. Kernel level (vh dsp-kernels, Dsp_Trace.tla): Fir::filter / filter_n /
   filter_n_inplace / filter_float (plus the AVX build of the same harness in
   the thorough tier and whenever target/avx exists), IirFilter recurrence,
   Hilbert block (real path = input aligned with the centre tap, imaginary
   path = FIR with the generated taps within a fixed-point tolerance, taps
   antisymmetric with zero even offsets), low_pass taps for all window types
   (symmetric, unit DC gain in 2^-24 fixed point).
"""
import json, os, random
from lib import vlib
from checks import blocks

LABELS = {"fn_out", "final_out", "panic", "err", "prefix", "unsettled", "constructor", "window", "leak", "spin"}
F = blocks.F


def dsp_table(ctx, th):
    rnd = random.Random(ctx.seed * 31 + 11)
    t = []

    def E(block, params, kind, n, fn, **kw):
        e = blocks.B(block, params, kind, n, **kw)
        e["fn"] = fn
        t.append(e)

    def taps(n, lo=-3, hi=3):
        v = [rnd.randint(lo, hi) for _ in range(n)]
        if not any(v):
            v[rnd.randrange(n)] = 1
        return v
    # FIR: tap counts x decimations (all decimation phases are reached by the random chunkings)
    firs = [(1, 1), (1, 2), (2, 1), (3, 1), (3, 2), (4, 3), (5, 8), (8, 1), (9, 4), (2, 7)]
    if th:
        firs += [(nt, d) for nt in (1, 2, 3, 5, 7, 8, 9, 16, 17) for d in (1, 2, 3, 4, 5, 8)]
    for nt, d in dict.fromkeys(firs):
        tp = taps(nt)
        E("FirFilter<Float>", {"taps": tp, "deci": d}, "small", 60 + nt + d, F("fir", taps=tp, deci=d))
    for nt, d in ([(1, 1), (3, 2), (4, 1)] + ([(2, 3), (5, 5), (8, 2)] if th else [])):
        tp = [[rnd.randint(-2, 2), rnd.randint(-2, 2)] for _ in range(nt)]
        tp[0] = [1, -1]
        E("FirFilter<Complex>", {"taps": tp, "deci": d}, "small", 50, F("firc", taps=tp, deci=d))
    E("FirFilter<Float>", {"taps": [1, 2, 3], "deci": 1}, "small", 2500, F("fir", taps=[1, 2, 3], deci=1))
    E("FirFilter<Float>", {"taps": [1, -1, 2, 1, 1], "deci": 3}, "small", 2501, F("fir", taps=[1, -1, 2, 1, 1], deci=3))
    # FFT filters: block = FftSize(nt) - nt
    for nt in ([1, 2, 3, 4, 5, 8, 9] + ([6, 7, 16, 17, 33] if th else [17])):
        tp = taps(nt, -2, 2)
        blk = 2 * (1 << (nt - 1).bit_length()) - nt if nt > 1 else 1
        n = blk * 4 + rnd.randint(0, blk)
        E("FftFilterFloat", {"taps": tp}, "small", n, F("fftfilt", taps=tp), extra={"out_round": True})
        tc = [[rnd.randint(-2, 2), rnd.randint(-2, 2)] for _ in range(nt)]
        E("FftFilter", {"taps": tc}, "small", n, F("fftfiltc", taps=tc), extra={"out_round": True})
    E("FftFilterFloat", {"taps": [1, 2, 3]}, "small", 3000, F("fftfilt", taps=[1, 2, 3]), extra={"out_round": True})
    E("FftFilter", {"taps": [[1, 1], [0, -2]]}, "small", 3001, F("fftfiltc", taps=[[1, 1], [0, -2]]), extra={"out_round": True})
    # FFT stream framing (bin 0 of every frame = sum of the frame; whole frames only), incl. inputs
    # longer than the output stream so that the output is the short side
    for size, n in ((4, 43), (8, 1500), (7, 1300), (16, 2100)):
        E("FftStream", {"size": size}, "small", n, F("fftframes", size=size))
    # FM demodulators
    E("FastFM", {}, "small", 60, F("fastfm"), sync=True)
    for g8 in (1, 2):
        dirs = [(1, 0), (1, 1), (0, 1), (-1, 1), (-1, 0), (-1, -1), (0, -1), (1, -1)]
        # first sample on the positive real axis: the product with the zero initial state is 0,
        # whose argument is undefined (signed zeros decide in the code)
        d, data = 0, [[2, 0]]
        for _ in range(59):
            d = (d + rnd.randint(-3, 3)) % 8
            m = rnd.choice([1, 2, 3])
            data.append([dirs[d][0] * m, dirs[d][1] * m])
        e = blocks.B("QuadratureDemod", {"gain": g8 * 4 / 3.141592653589793}, "small", 60, sync=True,
                     extra={"data": [data], "out_round": True})
        e["fn"] = F("qdemod8", gain8=g8)
        t.append(e)
    # single pole IIR: exact for the first n samples at scale 2^(a n)
    for a, n in ((1, 20), (2, 10)):
        e = blocks.B("SinglePoleIirFilter<Float>", {"alpha": 1 / (1 << a)}, "small", n, sync=True, extra={"out_scale": float(1 << (a * n))})
        e["fn"] = F("spiir", a=a, scale=1 << (a * n))
        t.append(e)
    return t


def run(ctx):
    vlib.build_harness()
    th = ctx.thorough()
    model(ctx, th)
    table = dsp_table(ctx, th)
    scheds = blocks.tlc_schedules(ctx, 6, 5)
    specs = blocks.make_specs(ctx, table, scheds, 16 if th else 6, "none", 9)
    ctx.cov["distinct_nontrivial"] += len(specs)
    ctx.cov["programs"] = len(set((s["block"], json.dumps(s["params"])) for s in specs))
    ctx.sample({k: v for k, v in specs[0].items() if k in ("block", "params", "mode", "len", "fn")})
    files = blocks.run_bench(ctx, specs, "C11")
    fails = blocks.judge(ctx, files)
    blocks.report(ctx, fails, LABELS)
    kernels(ctx, th)
    if not ctx.violations:
        blocks.self_test(ctx, files[0])
    ctx.assumptions += [
        "samples and taps are small integers (f32 arithmetic exact, summation order irrelevant); rounding-error bounds for arbitrary real inputs are NOT established by this check",
        "FFT filter outputs are compared after rounding to the nearest integer (must be within 1e-3 of it)",
        "QuadratureDemod on the 8 principal directions with consecutive samples less than half a turn apart (atan2 at exactly half a turn may return either sign)",
        "the portable-simd kernel (feature simd, nightly) is not built; the AVX kernel is built and compared in the thorough tier",
    ]
    return vlib.finish(ctx, "exploration", extra_cov={
        "rule": "states/transitions: TLC on Dsp.tla (overlap-add and decimating-FIR machines under all chunkings) + schedule enumeration; traces = bench scenarios and kernel traces validated by TLC against the definitions; evaluations = work() calls and kernel invocations judged"})


def replay(ctx, path):
    return blocks.replay(ctx, path)


def model_cfg(ctx, name, maxlen, tapsets, quirk, invs):
    cfg = ctx.path(name)
    with open(cfg, "w") as f:
        f.write(f"CONSTANTS\n Alphabet <- AlphabetDef\n MaxLen = {maxlen}\n TapSets <- {tapsets}\n Decis = {{1, 2, 3}}\n MaxSpace = 2\n Quirk = \"{quirk}\"\n"
                "SPECIFICATION Spec\n" + "".join(f"INVARIANT {i}\n" for i in invs) + "CHECK_DEADLOCK FALSE\n")
    return cfg


INVS = ["OverlapAddIsConvolution", "FirKeepsPhase", "FftIsDelayedFir", "BlockNotSmallerThanTaps"]


def model(ctx, th):
    r = vlib.tlc(ctx, "MC_Dsp", model_cfg(ctx, "dsp.cfg", 7 if th else 6, "TapSetsDeep" if th else "TapSetsQuick", "none", INVS), workers=10, timeout=1700)
    if r.violated or not r.ok:
        raise vlib.ToolError(f"Dsp.tla violates its invariants: {r.violated}\n{r.out[-2000:]}")
    ctx.cov["states"] += r.distinct
    ctx.cov["transitions"] += r.generated
    # non-vacuity: each seeded design error must be found by the invariant that owns it
    for quirk, inv in (("no_tail", "OverlapAddIsConvolution"), ("no_reverse", "FirKeepsPhase"), ("phase_lost", "FirKeepsPhase")):
        q = vlib.tlc(ctx, "MC_Dsp", model_cfg(ctx, f"dsp-{quirk}.cfg", 5, "TapSetsQuick", quirk, [inv]), workers=4, timeout=600)
        if inv not in q.violated:
            raise vlib.ToolError(f"non-vacuity: Dsp.tla with quirk {quirk} does not violate {inv}")
    ctx.notes.append("non-vacuity: the model with a dropped tail, unreversed taps or a lost decimation phase violates the invariants")


KLABELS = {"fir_value", "fir_count", "iir_recurrence", "iir_clamped_recurrence", "lowpass_odd", "lowpass_symmetric", "lowpass_dc_gain", "hilbert_taps",
           "hilbert_taps_antisymmetric", "hilbert_taps_even_zero", "hilbert_count", "hilbert_real_path", "hilbert_imag_path", "panic", "rejected"}


def build_avx():
    """The same harness with the AVX dot product compiled in (fir.rs selects it by target feature)."""
    import subprocess
    env = dict(os.environ, CARGO_NET_OFFLINE="true", CARGO_TARGET_DIR=os.path.join(vlib.HARNESS, "target", "avx"),
               RUSTFLAGS="--cfg rustradio_verif --check-cfg cfg(rustradio_verif) -C target-feature=+avx,+sse3")
    r = subprocess.run(["cargo", "build", "--offline"], cwd=vlib.HARNESS, env=env, stdout=subprocess.PIPE, stderr=subprocess.STDOUT, text=True)
    if r.returncode != 0:
        raise vlib.ToolError("AVX build of the harness failed:\n" + r.stdout[-2000:])
    return os.path.join(vlib.HARNESS, "target", "avx", "debug", "vh")


def kernels(ctx, th):
    import subprocess
    runs = [("scalar", vlib.VH, ctx.seed)]
    cpu_avx = "avx" in open("/proc/cpuinfo").read()
    if cpu_avx:
        runs.append(("avx", build_avx(), ctx.seed + 1))
    else:
        ctx.notes.append("CPU without AVX: the AVX kernel was not run")
    files = []
    for name, exe, seed in runs:
        of = ctx.path(f"kernels-{name}.ndjson")
        r = subprocess.run([exe, "dsp-kernels", "--seed", str(seed), "--n", str(1500 if th else 250), "--out", of],
                           stdout=subprocess.PIPE, stderr=subprocess.PIPE, text=True, timeout=1700)
        if r.returncode != 0:
            raise vlib.ToolError(f"dsp-kernels ({name}) failed: {r.stderr[-1500:]}")
        res = json.loads(r.stdout.strip().splitlines()[-1])
        if name == "avx" and not res["avx"]:
            raise vlib.ToolError("the AVX build does not have the AVX kernel compiled in")
        ctx.cov["evaluations"] += res["events"]
        ctx.cov["traces_validated_against_impl"] += 1
        files.append((name, of))
    fails = blocks.judge(ctx, [f for _, f in files], mod="Dsp_Trace")
    for label, h, ev, tf, hdr_line, evno in fails:
        build = [n for n, f in files if f == tf][0]
        what = ev.get("variant") or ev.get("window") or ev.get("what") or ""
        if ev.get("ev") == "hilbert":
            what = f"ntaps{ev['ntaps']}"
        sig = f"kernel:{ev.get('ev')}:{what}:{label}"
        small = {k: (v if not isinstance(v, list) or len(v) <= 40 else v[:40] + ["..."]) for k, v in ev.items()}
        ctx.violation(sig, f"{label} ({build} build): {json.dumps(small)[:600]}", replay_obj={"kind": "dsp-kernel", "build": build, "event": ev})
    kernel_self_test(ctx, files[0][1])


def kernel_self_test(ctx, tf):
    """Binding: a corrupted FIR output / IIR output / tap must be rejected."""
    with open(tf) as f:
        lines = [json.loads(l) for l in f]
    out = []
    done = set()
    for e in lines:
        e = dict(e)
        if e["ev"] == "fir" and e["variant"] == "filter_n" and "fir" not in done and len(e["out"]) >= 2:
            e["out"] = list(e["out"])
            e["out"][-1] += 1
            done.add("fir")
        elif e["ev"] == "iir" and "iir" not in done and len(e["out"]) >= 2:
            e["out"] = [e["out"][1], e["out"][0]] + list(e["out"][2:])
            if e["out"][0] != e["out"][1]:
                done.add("iir")
        elif e["ev"] == "lowpass" and "lp" not in done:
            e["taps24"] = list(e["taps24"])
            e["taps24"][0] += 50
            done.add("lp")
        elif e["ev"] == "hilbert" and "h" not in done:
            e["re"] = [0] + list(e["re"][:-1])
            done.add("h")
        out.append(e)
    p = ctx.path("kernel-selftest.ndjson")
    with open(p, "w") as f:
        f.write("\n".join(json.dumps(e, separators=(',', ':')) for e in out) + "\n")
    got = {l for l, *_ in blocks.judge(ctx, [p], mod="Dsp_Trace")}
    need = {"fir_value", "iir_recurrence", "lowpass_symmetric", "hilbert_real_path"}
    known_ok = {k["signature"] for k in ctx.known}
    if not need <= got:
        raise vlib.ToolError(f"kernel binding self-test: corrupted results not all rejected (got {sorted(got)})")
    ctx.notes.append("binding self-test: corrupted FIR / IIR outputs, low-pass tap and Hilbert real path are rejected by Dsp_Trace")
