"""C08 C09 C12 (and shared machinery for C10 C15 C19): the drip-feed block bench.

For every block type x parameter set x input, a reference run (whole input at
once) is followed by adversarial drip-feed runs of the same input: schedules
enumerated by TLC from specs/BlockContract.tla (capacity-4 streams, generic
blocks instantiated at a 4096-byte sample type) and seeded random schedules
(all blocks, one-page streams, near-full outputs, C09.3 wait probes, closed
inputs). Every event is validated by TLC against BlockContract_Trace; each
failed contract check is reported as `CHECK-FAILED <event> <label>`.
"""
import json, os, re, concurrent.futures, collections
from lib import vlib

BIG = 16384  # 4 samples of the 4096-byte type

# label -> property
LABELS = {
    "C08": {"panic", "err", "prefix", "final_out", "unsettled", "constructor"},
    "C09": {"window", "leak", "spin", "probe", "misdirected", "satisfied_wait", "close_verdict", "verdict_side", "eof_premature"},
    "C12": {"tags_ref", "tagmap", "tag_value", "fn_tags"},
    "C10": {"fn_out", "fn_tags", "panic", "err", "prefix", "final_out", "unsettled", "constructor"},
    "C19": {"synclaw", "eof", "fn_out", "fn_tags", "panic", "prefix", "final_out", "window", "leak", "spin", "probe", "misdirected", "satisfied_wait", "close_verdict", "tags_ref", "tagmap", "unsettled", "constructor"},
}

ID = {"kind": "identity", "arg": 0}
NONE = {"kind": "none", "arg": 0}


def B(block, params=None, kind="small", n=40, tagmap=None, sync=False, big=False, kinds=None, lens=None,
      sched=False, minwin=1, close=True, extra=None):
    d = dict(block=block, params=params or {}, kind=kind, len=n, tagmap=tagmap or NONE, sync=sync,
             stream_bytes=BIG if big else 4096, sched=sched, minwin=minwin, close_ok=close)
    if kinds:
        d["kinds"] = kinds
    if lens:
        d["lens"] = lens
    if extra:
        d.update(extra)
    return d


def _hdlc_stream():
    """A bit stream with idle ones, three frames (stuffing-heavy payloads), shared and separate flags."""
    from checks.hdlc import body_bits, FLAG
    bits = [1] * 9 + FLAG
    for payload, nflags in (([0x7E, 5, 0xFF], 1), ([1, 2, 3, 4, 0x3F, 0xFF, 0xFF], 2), ([0x55], 1)):
        bits += body_bits(payload) + FLAG * nflags
    return bits + [0, 1, 1]


def block_table(thorough):
    t = []
    # derive(sync) blocks
    t += [B("AddConst<Big>", {"val": 1000}, "ramp", 9, ID, True, True, sched=True),
          B("AddConst<Float>", {"val": 3}, "small", 60, ID, True),
          B("add_const<Float>", {"val": 3}, "small", 60, ID, True),
          B("MultiplyConst<Float>", {"val": 3}, "small", 60, ID, True),
          B("XorConst<u8>", {"val": 90}, "bytes", 60, ID, True),
          B("Add<Float>", {}, "small", 50, ID, True, kinds=["small", "small"]),
          B("Add<Big>", {}, "ramp", 9, ID, True, True, kinds=["ramp", "pos"]),
          B("Xor<u8>", {}, "bytes", 50, ID, True, kinds=["bytes", "bytes"]),
          B("Tee<Big>", {}, "ramp", 9, ID, True, True, sched=True),
          B("Tee<u8>", {}, "bytes", 50, ID, True),
          B("FloatToComplex", {}, "small", 50, ID, True, kinds=["small", "small"]),
          B("BinarySlicer", {}, "small", 60, ID, True),
          B("ComplexToMag2", {}, "small", 60, ID, True),
          B("NrziDecode", {}, "bits", 80, ID, True),
          B("Descrambler", {"mask": 33, "seed": 0, "len": 16}, "bits", 80, ID, True),
          B("Descrambler", {"mask": 5, "seed": 3, "len": 4}, "bits", 80, ID, True),
          B("CorrelateAccessCode", {"code": [1, 0, 1], "allowed": 0}, "bits", 80, ID, True),
          B("CorrelateAccessCodeTag", {"code": [1, 1, 0], "allowed": 1}, "bits", 80, ID, True),
          B("BurstTagger<u8>", {"threshold": 0.5}, "bytes", 60, ID, True, kinds=["bytes", "small"]),
          B("QuadratureDemod", {"gain": 1.0}, "small", 60, ID, True),
          B("FastFM", {}, "small", 60, ID, True),
          B("SinglePoleIirFilter<Float>", {"alpha": 0.5}, "small", 60, ID, True),
          B("Map<u8>", {}, "bytes", 60, ID, True),
          B("Map<Float,Complex>", {}, "small", 40, ID, True),
          B("CmaEqualizer", {"ntaps": 1}, "small", 40, ID),
          B("CmaEqualizer", {"ntaps": 3}, "small", 41, ID),
          B("DebugFilter<u8>", {}, "bytes", 30)]
    # value-based tag placement for blocks that copy samples (ramp data: every value identifies its sample)
    for blk, prm in (("Delay<u8>", {"delay": 3}), ("Skip<u8>", {"skip": 7}), ("Tee<u8>", {}), ("RationalResampler<u8>", {"interp": 3, "deci": 2}),
                     ("RationalResampler<u8>", {"interp": 2, "deci": 3})):
        t.append(B(blk, prm, "ramp", 200, extra={"tagvalue": True, "log_inputs": True}))
    # a delay change at run time (set_delay before the at-th work() call): what comes out depends on
    # when the change lands, so only the value-based tag rule and the verdict laws apply
    for d, nd, at in ((3, 1, 2), (5, 0, 3), (2, 6, 2), (4, 2, 1), (6, 3, 4), (8, 2, 2), (7, 0, 2), (9, 4, 3), (5, 1, 2), (6, 0, 5)):
        t.append(B("DelaySet<u8>", {"delay": d, "new_delay": nd, "at": at}, "ramp", 120, extra={"tagvalue": True, "log_inputs": True, "partial": True}))
    # hand-written work()
    t += [B("Delay<Big>", {"delay": 2}, "ramp", 9, {"kind": "delay", "arg": 2}, big=True, sched=True),
          B("Delay<Big>", {"delay": 0}, "ramp", 7, {"kind": "delay", "arg": 0}, big=True, sched=True),
          B("Delay<Big>", {"delay": 5}, "ramp", 8, {"kind": "delay", "arg": 5}, big=True),
          B("Delay<u8>", {"delay": 3}, "bytes", 60, {"kind": "delay", "arg": 3}),
          B("Skip<Big>", {"skip": 2}, "ramp", 9, {"kind": "skip", "arg": 2}, big=True, sched=True),
          B("Skip<Big>", {"skip": 0}, "ramp", 7, {"kind": "skip", "arg": 0}, big=True, sched=True),
          B("Skip<u8>", {"skip": 5}, "bytes", 60, {"kind": "skip", "arg": 5}),
          B("RationalResampler<Big>", {"interp": 1, "deci": 2}, "ramp", 9, NONE, big=True, sched=True),
          B("RationalResampler<Big>", {"interp": 2, "deci": 1}, "ramp", 7, NONE, big=True, sched=True),
          B("RationalResampler<Big>", {"interp": 3, "deci": 2}, "ramp", 8, NONE, big=True, sched=True),
          B("RationalResampler<u8>", {"interp": 2, "deci": 3}, "bytes", 60),
          B("RationalResampler<u8>", {"interp": 4, "deci": 6}, "bytes", 60),
          B("RationalResampler<u8>", {"interp": 5, "deci": 1}, "bytes", 40),
          B("RtlSdrDecode", {}, "bytes", 61),
          B("FirFilter<Float>", {"taps": [1, 2, 3], "deci": 1}, "small", 60, {"kind": "deci", "arg": 1}),
          B("FirFilter<Float>", {"taps": [1, -1, 2, 1], "deci": 3}, "small", 61, {"kind": "deci", "arg": 3}),
          B("FirFilter<Float>", {"taps": [2], "deci": 2}, "small", 41, {"kind": "deci", "arg": 2}),
          B("Hilbert", {"ntaps": 5}, "small", 60, ID),
          B("FftStream", {"size": 4}, "small", 43),
          B("ZeroCrossing", {"sps": 4.0}, "square", 120),
          B("SymbolSync", {"sps": 4.0}, "square", 120),
          B("ToText<u8>", {}, "bytes", 30),
          B("ToText2<u8>", {}, "bytes", 25, kinds=["bytes", "small"]),
          B("HdlcDeframer", {"min": 1, "max": 60}, "bits", 0, extra={"data": [_hdlc_stream()]}),
          B("StreamToPdu<u8>", {"max": 20, "tail": 2}, "bytes", 80, extra={"force_tags": "burst"}),
          B("StreamToPdu<u8>", {"max": 5, "tail": 0}, "bytes", 80, extra={"force_tags": "burst"}),
          B("StreamToPdu<u8>", {"max": 4, "tail": 2}, "bytes", 90, extra={"force_tags": "burst"}),
          B("StreamToPdu<u8>", {"max": 3, "tail": 1}, "bytes", 70, extra={"force_tags": "burst_stray"}),
          B("VecToStream<u8>", {}, "bytes", 12),
          B("VecToStream<u8>", {}, "bytes", 12, extra={"packets": [[1] * 3000, [2] * 2000, [3] * 1500, [4] * 10, [5] * 4000]}),
          B("HdlcDeframer", {"min": 1, "max": 30}, "bits_runs", 200),
          B("Il2pDeframer", {}, "bits", 200),
          # with frame sync marks: the 120 header bits after a mark arrive in any number of pieces
          B("Il2pDeframer", {}, "bits", 700, extra={"force_tags": "sync"}),
          B("Il2pDeframer", {}, "bits", 400, extra={"force_tags": "sync"}),
          B("AuEncode", {"rate": 8000}, "small", 40),
          B("AuDecode", {"rate": 8000}, "bytes", 100, extra={"allow_err": True}),
          # well-formed AU streams (28- and 40-byte headers), so that the header states are passed in pieces
          B("AuDecode", {"rate": 8000}, "bytes", 0, extra={"data": [[46, 115, 110, 100, 0, 0, 0, 28, 255, 255, 255, 255, 0, 0, 0, 3, 0, 0, 31, 64, 0, 0, 0, 1, 0, 0, 0, 0] + [(7 * i) % 256 for i in range(60)]]}),
          B("AuDecode", {"rate": 8000}, "bytes", 0, extra={"data": [[46, 115, 110, 100, 0, 0, 0, 40, 255, 255, 255, 255, 0, 0, 0, 3, 0, 0, 31, 64, 0, 0, 0, 1] + [65] * 16 + [(11 * i) % 256 for i in range(40)]]}),
          B("NullSink<u8>", {}, "bytes", 40),
          B("VectorSink<u8>", {}, "bytes", 40),
          B("VectorSource<Big>", {}, "ramp", 9, big=True),
          B("VectorSource<u8>", {"repeat": 2}, "bytes", 30)]
    # long inputs: fixed-type blocks whose output stream (one page) fills up
    t += [B("ZeroCrossing", {"sps": 4.0}, "nrz", 6000),
          B("SymbolSync", {"sps": 4.0}, "nrz", 6000),
          # samples per symbol that are not exactly representable (rounding of the f32 positions matters)
          B("ZeroCrossing", {"sps": 2.4}, "nrz", 3000),
          B("ZeroCrossing", {"sps": 3.6}, "nrz", 3000),
          B("ZeroCrossing", {"sps": 3.3333333}, "nrz", 3000),
          B("SymbolSync", {"sps": 3.6}, "nrz", 3000),
          B("ZeroCrossingClock", {"sps": 4.0}, "nrz", 6000),
          B("RtlSdrDecode", {}, "bytes", 3001),
          B("RationalResampler<u8>", {"interp": 5, "deci": 1}, "bytes", 1300),
          B("RationalResampler<u8>", {"interp": 3, "deci": 2}, "ramp", 4000),
          B("FloatToComplex", {}, "small", 1500, ID, True, kinds=["small", "small"]),
          B("AuEncode", {"rate": 8000}, "small", 3000),
          B("ToText<u8>", {}, "bytes", 2500),
          B("FftStream", {"size": 8}, "small", 1500),
          B("Hilbert", {"ntaps": 5}, "small", 1500, ID),
          B("FirFilter<Float>", {"taps": [1, 2, 3], "deci": 1}, "small", 2500, {"kind": "deci", "arg": 1}),
          B("Delay<u8>", {"delay": 3}, "bytes", 5000, {"kind": "delay", "arg": 3}),
          # stateful sync blocks with more input than the output stream holds (the output is the short side)
          B("NrziDecode", {}, "bits", 5000, ID, True),
          B("Descrambler", {"mask": 33, "seed": 0, "len": 16}, "bits", 5000, ID, True),
          B("QuadratureDemod", {"gain": 1.0}, "small", 1500, ID, True),
          B("FastFM", {}, "small", 1500, ID, True),
          B("FftFilterFloat", {"taps": [1, 2, 3]}, "small", 400, ID),
          B("FftFilter", {"taps": [1, 2]}, "small", 300, ID),
          B("FftFilter", {"taps": [1, 0, 2, 1, 1]}, "small", 700, ID)]
    if thorough:
        t += [B("FftFilterFloat", {"taps": [1, 2, 3]}, "small", 3000, ID),
              B("FftFilter", {"taps": [1, 2]}, "small", 3000, ID),
              B("Delay<u8>", {"delay": 5000}, "bytes", 6000, {"kind": "delay", "arg": 5000}),
              B("RationalResampler<u8>", {"interp": 3, "deci": 1}, "ramp", 3000)]
    # a block that emits when it is dropped: the digest of everything it was given (appended last
    # so that the data seeds of the entries above do not move)
    t += [B("Hasher", {}, "bytes", 300, extra={"drop_flush": True}),
          B("Hasher", {}, "bytes", 5000, extra={"drop_flush": True})]
    # input ends while the output stream is full: what the block still holds must come out
    # before its eof() turns true (MTGraph retires a block on eof() after a wait)
    held = []
    for _ in range(12):
        held += [{"op": "feed", "i": 1, "k": 1 << 20}, {"op": "work"}, {"op": "work"}]
    held += [{"op": "close_if_done", "i": 1}, {"op": "work"}, {"op": "work"}]
    t += [B("FftFilterFloat", {"taps": [1, 0, 2, 1, 1]}, "small", 1500, extra={"extra_sched": held}),
          B("FftFilter", {"taps": [1, 0, 2, 1, 1]}, "small", 900, extra={"extra_sched": held}),
          B("RationalResampler<u8>", {"interp": 3, "deci": 1}, "bytes", 2000, extra={"extra_sched": held}),
          B("Hilbert", {"ntaps": 5}, "small", 1500, extra={"extra_sched": held}),
          B("VecToStream<u8>", {}, "bytes", 0, extra={"extra_sched": held, "packets": [[7] * 3000, [8] * 2000]})]
    # no input at all: what a block emits of its own accord (Delay's leading zeros, more of them than
    # the output stream holds) must come out although its input has ended and is empty
    t += [B("Delay<Big>", {"delay": 6}, "ramp", 0, big=True),
          B("Delay<u8>", {"delay": 5000}, "bytes", 0),
          B("Delay<u8>", {"delay": 3}, "bytes", 0)]
    return t


def F(kind, **p):
    return {"kind": kind, "p": p or {"x": 0}}


def fn_table(thorough):
    """Blocks with an independent executable specification (BlockFns.tla)."""
    t = []
    def E(block, params, kind, n, fn, **kw):
        e = B(block, params, kind, n, **kw)
        e["fn"] = fn
        t.append(e)
    E("AddConst<Big>", {"val": 1000}, "ramp", 9, F("lin", coef=[[1]], const=[1000]), sync=True, big=True, sched=True)
    E("AddConst<Float>", {"val": 3}, "small", 40, F("lin", coef=[[1]], const=[3]), sync=True)
    E("add_const<Float>", {"val": 3}, "small", 40, F("lin", coef=[[1]], const=[3]), sync=True)
    E("MultiplyConst<Float>", {"val": 3}, "small", 40, F("lin", coef=[[3]], const=[0]), sync=True)
    E("Add<Float>", {}, "small", 40, F("lin", coef=[[1, 1]], const=[0]), sync=True, kinds=["small", "small"])
    E("Add<Big>", {}, "ramp", 9, F("lin", coef=[[1, 1]], const=[0]), sync=True, big=True, kinds=["ramp", "pos"])
    E("Tee<Big>", {}, "ramp", 9, F("tee"), sync=True, big=True, sched=True)
    E("Tee<u8>", {}, "bytes", 40, F("tee"), sync=True)
    E("XorConst<u8>", {"val": 90}, "bytes", 60, F("xor", val=90), sync=True)
    E("Xor<u8>", {}, "bytes", 60, F("xor", val=0), sync=True, kinds=["bytes", "bytes"])
    E("BinarySlicer", {}, "small", 60, F("slicer"), sync=True)
    E("Map<u8>", {}, "bytes", 60, F("affinemod", a=3, b=1, m=256), sync=True)
    E("Map<Float,Complex>", {}, "small", 40, F("negpair"), sync=True)
    E("DebugFilter<u8>", {}, "bytes", 30, F("debugtext"))
    E("ComplexToMag2", {}, "small", 40, F("mag2"), sync=True)
    E("FloatToComplex", {}, "small", 40, F("f2c"), sync=True, kinds=["small", "small"])
    E("NrziDecode", {}, "bits", 80, F("nrzi"), sync=True)
    # seeds with and without the top register bit (bit `len`) set
    masks = [(33, 0, 16), (5, 3, 4), (1, 0, 1), (9, 7, 5), (0x21, 0x1ffff, 16), (5, 0x1f, 4), (3, 7, 2), (9, 0x2a, 5)] + ([(3, 0, 2), (18, 1, 6), (18, 0x55, 6)] if thorough else [])
    for mask, seed, ln in masks:
        E("Descrambler", {"mask": mask, "seed": seed, "len": ln}, "bits", 70, F("descramble", mask=mask, seed=seed, len=ln), sync=True)
    codes = [([1, 0, 1], 0), ([1, 1, 0], 1), ([1], 0), ([0, 1, 1, 0], 2)] + ([([0], 0), ([1, 0], 1), ([1, 1, 1, 1], 0)] if thorough else [])
    for code, allowed in codes:
        E("CorrelateAccessCode", {"code": code, "allowed": allowed}, "bits", 60, F("corr", code=code, allowed=allowed), sync=True)
        E("CorrelateAccessCodeTag", {"code": code, "allowed": allowed}, "bits", 60, F("corrtag", code=code, allowed=allowed), sync=True)
    # long codes around machine word sizes (31..33, 63..65 symbols): the input holds the code, the
    # code with one and with two symbols flipped, and the code cut short
    import random as _r
    for ln, allowed in ((31, 0), (32, 1), (33, 0), (63, 1), (64, 0), (64, 1), (65, 0)) if thorough else ((32, 1), (64, 0), (64, 1), (65, 0)):
        rr = _r.Random(1000 + ln)
        code = [rr.randint(0, 1) for _ in range(ln)]
        one, two = list(code), list(code)
        one[ln // 3] ^= 1
        two[1] ^= 1
        two[ln - 2] ^= 1
        noise = lambda k: [rr.randint(0, 1) for _ in range(k)]
        data = noise(7) + code + noise(5) + one + noise(3) + two + code[:ln - 1] + noise(2) + code + code
        E("CorrelateAccessCode", {"code": code, "allowed": allowed}, "bits", 0, F("corr", code=code, allowed=allowed), sync=True, extra={"data": [data]})
        E("CorrelateAccessCodeTag", {"code": code, "allowed": allowed}, "bits", 0, F("corrtag", code=code, allowed=allowed), sync=True, extra={"data": [data]})
    # byte-valued input and codes: symbols are compared for equality, not by their low bit
    for code, allowed in (([1, 0, 1], 0), ([3, 2], 0), ([0], 0), ([255, 1, 0], 1)):
        E("CorrelateAccessCode", {"code": code, "allowed": allowed}, "smallbytes", 80, F("corr", code=code, allowed=allowed), sync=True)
        E("CorrelateAccessCodeTag", {"code": code, "allowed": allowed}, "smallbytes", 80, F("corrtag", code=code, allowed=allowed), sync=True)
    for d in ([0, 1, 2, 5] if not thorough else [0, 1, 2, 3, 4, 5]):
        E("Delay<Big>", {"delay": d}, "ramp", 8, F("delay", delay=d), big=True, sched=(d in (0, 2)))
        E("Skip<Big>", {"skip": d}, "ramp", 8, F("skip", skip=d), big=True, sched=(d in (0, 2)))
    E("Delay<u8>", {"delay": 3}, "bytes", 60, F("delay", delay=3))
    E("Skip<u8>", {"skip": 70}, "bytes", 60, F("skip", skip=70))
    pairs = [(1, 2), (2, 1), (3, 2), (2, 3), (4, 6), (5, 1), (1, 1)] + ([(i, d) for i in range(1, 7) for d in range(1, 7)] if thorough else [])
    for i, d in dict.fromkeys(pairs):
        E("RationalResampler<Big>", {"interp": i, "deci": d}, "ramp", 8, F("resample", interp=i, deci=d), big=True, sched=((i, d) in ((1, 2), (3, 2))))
    E("RationalResampler<u8>", {"interp": 5, "deci": 3}, "bytes", 900, F("resample", interp=5, deci=3))
    E("RtlSdrDecode", {}, "bytes", 61, F("rtlsdr"), extra={"out_scale": 125})
    E("VectorSource<Big>", {"repeat": 1}, "ramp", 9, F("vecsource", repeat=1), big=True)
    E("VectorSource<Big>", {"repeat": 3}, "ramp", 3, F("vecsource", repeat=3), big=True)
    E("VectorSource<u8>", {"repeat": 2}, "bytes", 30, F("vecsource", repeat=2))
    E("VecToStream<u8>", {}, "bytes", 12, F("v2s"))
    E("StreamToPdu<u8>", {"max": 20, "tail": 2}, "bytes", 80, F("s2pdu", max=20, tail=2), extra={"force_tags": "burst"})
    E("StreamToPdu<u8>", {"max": 5, "tail": 0}, "bytes", 80, F("s2pdu", max=5, tail=0), extra={"force_tags": "burst"})
    # bursts that fit but overflow while the tail is collected (burst <= max < burst + tail), and max below every burst
    for mx, tail in ((4, 2), (6, 3), (1, 1), (3, 4), (2, 0)):
        E("StreamToPdu<u8>", {"max": mx, "tail": tail}, "bytes", 90, F("s2pdu", max=mx, tail=tail), extra={"force_tags": "burst"})
    E("BurstTagger<u8>", {"threshold": 0.5}, "bytes", 60, F("burst", threshold=0), sync=True, kinds=["bytes", "small"])
    E("ToText<u8>", {}, "bytes", 30, F("totext"))
    E("ToText2<u8>", {}, "bytes", 25, F("totext"), kinds=["bytes", "bytes"])
    # more text than one output stream holds: the output runs full mid-way
    E("ToText<u8>", {}, "bytes", 1600, F("totext"))
    E("ToText2<u8>", {}, "bytes", 900, F("totext"), kinds=["bytes", "bytes"])
    E("FftStream", {"size": 4}, "small", 43, F("fftframes", size=4))
    E("FftStream", {"size": 8}, "small", 1500, F("fftframes", size=8))
    E("FftStream", {"size": 7}, "small", 1300, F("fftframes", size=7))
    E("RationalResampler<u8>", {"interp": 3, "deci": 2}, "bytes", 3500, F("resample", interp=3, deci=2))
    # stateful sync blocks with the output as the short side
    E("NrziDecode", {}, "bits", 5000, F("nrzi"), sync=True)
    E("Descrambler", {"mask": 33, "seed": 0, "len": 16}, "bits", 5000, F("descramble", mask=33, seed=0, len=16), sync=True)
    E("XorConst<u8>", {"val": 90}, "bytes", 5000, F("xor", val=90), sync=True)
    E("RtlSdrDecode", {}, "bytes", 2501, F("rtlsdr"), extra={"out_scale": 125})
    return t


def user_table():
    """Harness-defined derive(Block) blocks (C19)."""
    t = []
    def E(block, kind, n, fn, **kw):
        e = B(block, {}, kind, n, **kw)
        e["fn"] = fn
        t.append(e)
    E("U11", "ramp", 9, F("lin", coef=[[1]], const=[1]), sync=True, big=True, sched=True, tagmap=ID)
    E("U21", "ramp", 9, F("lin", coef=[[1, 10]], const=[0]), sync=True, big=True, tagmap=ID, kinds=["ramp", "pos"], lens=[9, 7])
    E("U32", "ramp", 9, F("lin", coef=[[1, 10, 100], [10, 0, 1]], const=[0, 0]), sync=True, big=True, tagmap=ID,
      kinds=["ramp", "pos", "small"], lens=[9, 8, 10])
    E("U13", "bytes", 60, F("lin", coef=[[1], [1], [-1]], const=[0, 1000, 255]), sync=True, tagmap=ID)
    E("T21", "ramp", 9, F("lin", coef=[[1, 10]], const=[0]), sync=True, big=True, tagmap={"kind": "identity", "arg": 0, "src": 2},
      kinds=["ramp", "pos"])
    E("P12", "bytes", 41, F("p12"))
    return t


def tlc_schedules(ctx, depth, total, cap=4):
    cfg = ctx.path("bc.cfg")
    with open(cfg, "w") as f:
        f.write(f"CONSTANTS\n Cap = {cap}\n Total = {total}\n Depth = {depth}\n Ks <- KsDef\n"
                "SPECIFICATION Spec\nINVARIANT Export\nCHECK_DEADLOCK FALSE\n")
    r = vlib.tlc(ctx, "MC_BlockContract", cfg, workers=1, timeout=900)
    ctx.cov["states"] += r.distinct
    ctx.cov["transitions"] += r.generated
    scheds = [json.loads(s) for s in r.lines("SCHED")]
    if not scheds:
        raise vlib.ToolError("no schedules from MC_BlockContract")
    return scheds


HELD_ALL = sum(([{"op": "feed_all"}, {"op": "work"}, {"op": "work"}] for _ in range(12)), []) + \
    [{"op": "close_all_if_done"}, {"op": "work"}, {"op": "work"}]


def make_specs(ctx, table, scheds, nrandom, tags, sched_stride, probes_close=True):
    """One group per table entry: ref, then schedule replays (if entry.sched), then random drip runs."""
    specs = []
    gid = 0
    for ent in table:
        gid += 1
        base = {k: v for k, v in ent.items() if k not in ("sched", "minwin", "close_ok", "extra_sched")}
        base["tags"] = tags if ent["tagmap"]["kind"] != "none" or tags == "none" else "none"
        if ent.get("force_tags"):
            base["tags"] = ent["force_tags"]
        if ent.get("fn"):
            base["log_inputs"] = True
        base["data_seed"] = ctx.seed * 7919 + gid
        base["gid"] = gid
        specs.append(dict(base, mode="ref", id=f"{gid}:ref", seed=1))
        k = 0
        if probes_close and ent["close_ok"] and not ent.get("extra_sched") and not ent.get("infinite"):
            # every block once with its input(s) ending while the outputs are full (never drained
            # until the end): whatever it still holds must come out before its eof() turns true
            specs.append(dict(base, mode="sched", sched=HELD_ALL, id=f"{gid}:h", seed=1, close=True))
        if ent.get("extra_sched"):
            # a hand-written environment schedule for a situation the enumerated ones do not reach
            specs.append(dict(base, mode="sched", sched=ent["extra_sched"], id=f"{gid}:x", seed=1, close=True))
        if ent["sched"] and scheds:
            for si in range((gid * 7) % sched_stride, len(scheds), sched_stride):
                k += 1
                specs.append(dict(base, mode="sched", sched=scheds[si], id=f"{gid}:s{si}", seed=si))
        long = ent["len"] >= 1000
        for r in range(nrandom if not long else max(4, nrandom // 2)):
            k += 1
            steps = 40 + 15 * (r % 5) + (ent["len"] if ent["len"] < 200 else ent["len"] // 3)
            specs.append(dict(base, mode="random", steps=steps, id=f"{gid}:r{r}", seed=ctx.seed * 1000 + gid * 37 + r,
                              style=((3 + r % 2) if long else (4 - r % 5)),
                              close=(probes_close and ent["close_ok"] and r % 3 == 0)))
    return specs


def run_bench(ctx, specs, tag):
    """Run specs in parallel chunks that keep groups together; returns trace files."""
    groups = collections.OrderedDict()
    for s in specs:
        groups.setdefault(s["gid"], []).append(s)
    gl = list(groups.values())
    nch = max(1, min(12, len(gl)))
    chunks = [[] for _ in range(nch)]
    sizes = [0] * nch
    for g in sorted(gl, key=lambda g: -len(g)):
        i = sizes.index(min(sizes))
        chunks[i] += g
        sizes[i] += len(g)

    def one(i):
        sf = ctx.path(f"bench-{tag}-{i}.specs")
        tf = ctx.path(f"bench-{tag}-{i}.ndjson")
        with open(sf, "w") as f:
            for s in chunks[i]:
                f.write(json.dumps(s) + "\n")
        res = vlib.vh_json(["bench", "--specs", sf, "--out", tf], timeout=1700)
        return tf, res
    files = []
    with concurrent.futures.ThreadPoolExecutor(max_workers=12) as ex:
        for tf, res in ex.map(one, [i for i in range(nch) if chunks[i]]):
            files.append(tf)
            ctx.cov["evaluations"] += res["works"]
            ctx.cov["traces_validated_against_impl"] += res["scenarios"]
    return files


def judge(ctx, files, mod="BlockContract_Trace"):
    """Validate trace files; returns list of failures (label, scenario header, event)."""
    fails = []

    def one(tf):
        cfg = ctx.path(os.path.basename(tf) + ".cfg")
        with open(cfg, "w") as f:
            f.write("SPECIFICATION TraceSpec\nPOSTCONDITION TraceAccepted\nCHECK_DEADLOCK FALSE\n")
        r = vlib.tlc(ctx, mod, cfg, workers=1, timeout=1700, env={"TRACE": tf}, dfs=True, xmx="6g")
        return tf, r
    with concurrent.futures.ThreadPoolExecutor(max_workers=8) as ex:
        for tf, r in ex.map(one, files):
            with open(tf) as f:
                lines = f.read().splitlines()
            hdr_at = []
            cur = None
            for i, l in enumerate(lines):
                if l.startswith('{"') and ('"ev":"scenario"' in l or '"ev":"graph"' in l):
                    cur = i
                hdr_at.append(cur)
            seen = set()
            for m in re.finditer(r'CHECK-FAILED (\d+) (\w+)', r.out):
                ev = int(m.group(1)) - 1
                label = m.group(2)
                if ev >= len(lines):
                    continue
                h = json.loads(lines[hdr_at[ev]]) if hdr_at[ev] is not None else {}
                key = (h.get("id"), label)
                if key in seen:
                    continue
                seen.add(key)
                fails.append((label, h, json.loads(lines[ev]), tf, hdr_at[ev], ev))
            rej = [l for l in r.out.splitlines() if "TRACE-REJECTED" in l]
            if rej or (r.code != 0 and "CHECK-FAILED" not in r.out) or "Error:" in r.out and not rej and "TraceAccepted" not in r.out:
                # a structural rejection (malformed trace / unexpected event)
                m = re.search(r'TRACE-REJECTED at event (\d+)', " ".join(rej))
                ev = int(m.group(1)) - 1 if m else 0
                h = json.loads(lines[hdr_at[ev]]) if ev < len(lines) and hdr_at[ev] is not None else {}
                if not rej:
                    raise vlib.ToolError(f"TLC failed on bench trace {tf}:\n{r.out[-2000:]}")
                fails.append(("rejected", h, json.loads(lines[ev]) if ev < len(lines) else {}, tf, hdr_at[ev] if ev < len(lines) else 0, ev))
    return fails


def report(ctx, fails, labels):
    """Turn failures with labels of this property into violations."""
    for label, h, ev, tf, h_at, ev_at in fails:
        if label not in labels and label != "rejected":
            continue
        blk = h.get("block", "?")
        sig = f"{blk}:{label}"
        if label == "panic":
            # the panic message is part of the signature, so that a known
            # finding does not hide a different panic of the same block
            msg = (ev.get("verdict") or {}).get("msg", "")
            sig += ":" + "".join(ch if ch.isalnum() else "_" for ch in msg[:48])
        # replay file: the scenario's events up to the failing one, plus the group's reference run
        rp = ctx.path("bench-replay.ndjson")
        with open(tf) as f:
            lines = f.read().splitlines()
        gid = str(h.get("id", "")).split(":")[0]
        ref_at = None
        for i, l in enumerate(lines):
            if '"ev":"scenario"' in l and f'"id":"{gid}:ref"' in l.replace(" ", ""):
                ref_at = i
        out = []
        if ref_at is not None and ref_at != h_at:
            j = ref_at
            while j < len(lines) and not (j > ref_at and '"ev":"scenario"' in lines[j]):
                out.append(lines[j]); j += 1
        j = h_at or 0
        while j < len(lines) and not (j > (h_at or 0) and '"ev":"scenario"' in lines[j]):
            out.append(lines[j]); j += 1
        with open(rp, "w") as f:
            f.write("\n".join(out) + "\n")
        desc = f"{blk} params={json.dumps(h.get('params'))} mode={h.get('mode')} id={h.get('id')}: check '{label}' failed at {json.dumps(ev)[:300]}"
        ctx.violation(sig, desc, replay_src=rp)


def self_test(ctx, tf):
    """Corrupt one output sample of a drip run: must be reported as prefix/final_out."""
    with open(tf) as f:
        lines = f.read().splitlines()
    evs = [json.loads(l) for l in lines[:3000]]
    starts = [i for i, e in enumerate(evs) if e["ev"] == "scenario"]
    target = None
    for a, b in zip(starts, starts[1:] + [len(evs)]):
        if evs[a].get("mode") != "ref" and b < len(evs):
            ws = [i for i in range(a, b) if evs[i]["ev"] == "work" and evs[i]["out"] and evs[i]["out"][0]]
            if ws:
                target = (a, b, ws[0])
                break
    if not target:
        raise vlib.ToolError("self-test: no drip scenario with output")
    a, b, wi = target
    evs = evs[:b]
    bad = json.loads(json.dumps(evs))
    bad[wi]["out"][0][0][-1] += 1
    p1 = ctx.path("bench-selftest-corrupt.ndjson")
    with open(p1, "w") as f:
        f.write("\n".join(json.dumps(e) for e in bad) + "\n")
    fails = judge(ctx, [p1])
    if not any(l in ("prefix", "final_out") for l, *_ in fails):
        raise vlib.ToolError("binding self-test failed: corrupted output sample not reported")
    bad = json.loads(json.dumps(evs))
    bad[wi]["rc_same"] = False
    with open(p1, "w") as f:
        f.write("\n".join(json.dumps(e) for e in bad) + "\n")
    fails = judge(ctx, [p1])
    if not any(l == "leak" for l, *_ in fails):
        raise vlib.ToolError("binding self-test failed: leaked window flag not reported")
    ctx.notes.append("binding self-test: corrupted output sample and leaked-window flag are reported by the trace spec")


def run(ctx, table=None, labels=None):
    vlib.build_harness()
    prop = ctx.prop
    labels = labels or LABELS[prop]
    thorough = ctx.thorough()
    if table is None:
        table = {"C10": fn_table, "C19": lambda t: user_table()}.get(prop, block_table)(thorough)
        if prop == "C12":
            # blocks that ADD tags have an independent definition of where the tags go (BlockFns)
            table = table + [e for e in fn_table(thorough) if e["fn"]["kind"] in ("corrtag", "burst", "v2s", "vecsource")]
    if thorough:
        scheds = tlc_schedules(ctx, 7, 6)
        stride, nrandom = 3, 24
    else:
        scheds = tlc_schedules(ctx, 6, 5)
        stride, nrandom = 9, 8
    tags = "sparse" if prop in ("C12", "C19") else "none"
    if prop == "C19":
        nrandom *= 3
    specs = make_specs(ctx, table, scheds, nrandom, tags, stride)
    if prop in ("C12", "C19"):
        specs += [dict(s, tags="dense", id=s["id"] + "d", gid=s["gid"] + 10000, data_seed=s["data_seed"] + 1)
                  for s in make_specs(ctx, table, scheds, max(2, nrandom // 3), "dense", stride * 3)]
    ctx.cov["distinct_nontrivial"] += len(set((s["block"], json.dumps(s["params"]), s["mode"], json.dumps(s.get("sched")), s["seed"]) for s in specs))
    ctx.cov["programs"] = len(set((s["block"], json.dumps(s["params"])) for s in specs))
    ctx.sample({k: v for k, v in specs[1].items() if k in ("block", "params", "mode", "sched", "len", "kind", "tags")})
    ctx.sample({k: v for k, v in specs[-1].items() if k in ("block", "params", "mode", "steps", "len", "kind", "tags", "close")})
    if prop == "C10":
        cfg = ctx.path("bfns.cfg")
        with open(cfg, "w") as f:
            f.write(f"CONSTANT MaxN = {14 if thorough else 12}\nSPECIFICATION Spec\nINVARIANT ClosedFormsAgree\nCHECK_DEADLOCK FALSE\n")
        r = vlib.tlc(ctx, "MC_BlockFns", cfg, workers=8, timeout=900)
        if r.violated or not r.ok:
            raise vlib.ToolError(f"BlockFns closed forms disagree with the recursive definitions: {r.out[-1500:]}")
        ctx.cov["states"] += r.distinct
        ctx.cov["transitions"] += r.generated
    files = run_bench(ctx, specs, prop)
    fails = judge(ctx, files)
    report(ctx, fails, labels)
    other = collections.Counter(f"{h.get('block')}:{l}" for l, h, *_ in fails if l not in labels and l != "rejected")
    if other:
        ctx.notes.append("failures seen that belong to other properties' checks: " + ", ".join(f"{k} x{v}" for k, v in sorted(other.items())))
    if not ctx.violations:
        self_test(ctx, files[0])
    ctx.assumptions += [
        "oracle for C08/C12 is metamorphic (the block itself under whole-input delivery); independent oracles are C10's",
        "generic blocks are instantiated at a 4096-byte sample type to get capacity-4 streams; fixed-type blocks run on one-page streams (1024..4096 samples) under random schedules",
        "a block's wait verdict is probed only when the bench can provide exactly what it asked for",
    ]
    return vlib.finish(ctx, "model_checking", extra_cov={
        "rule": "states/transitions: TLC enumeration of environment schedules (BlockContract.tla); traces = scenarios (reference + drip runs) executed on real blocks and validated event by event by TLC; evaluations = work() calls judged; distinct_nontrivial = distinct (block, params, schedule/seed) scenarios",
        "labels_checked": sorted(labels)})


def replay(ctx, path):
    vlib.build_harness()
    fails = judge(ctx, [path])
    for l, h, ev, *_ in fails:
        print(f"check '{l}' failed: {h.get('block')} {json.dumps(ev)[:200]}")
    ctx.cleanup()
    return 1 if fails else 0
