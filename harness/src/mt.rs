//! C03/C04: one producer thread and one consumer thread on a real stream under
//! the controlled scheduler (rustradio::verif). Every grant is one step of
//! specs/StreamMT.tla; the recorded step trace is validated by TLC
//! (StreamMT_Trace.tla).
//!
//! * `mt-random`: seeded random clients + random / priority schedules.
//! * `mt-replay`: execute schedules (paths of the TLC transition graph).
use crate::common::*;
use rustradio::stream::{ReadStream, WriteStream, new_stream};
use rustradio::verif::{self, Grant, Point, ThreadView};
use serde_json::{Value, json};
use std::collections::VecDeque;
use std::io::{BufRead, Write};
use std::sync::{Arc, Mutex};

type T = [u64; 512]; // one page per sample: capacity = number of pages.
type Cmds = Arc<Mutex<VecDeque<Value>>>;

fn emit(v: Value) {
    let s = v.to_string();
    verif::emit(s[1..s.len() - 1].to_string());
}

fn producer(ws: WriteStream<T>, cmds: Cmds) {
    verif::thread_start("P");
    let mut win = None;
    let mut produced: u64 = 0;
    loop {
        verif::named_point("cmd");
        let Some(cmd) = cmds.lock().unwrap().pop_front() else { break };
        match cmd["op"].as_str().unwrap() {
            "acqw" => {
                let w = ws.write_buf().unwrap();
                let (s, e) = w.verif_range();
                emit(json!({"ev": "ret", "op": "acqw", "start": s, "len": e - s}));
                win = Some(w);
            }
            "put" => {
                let k = cmd["k"].as_u64().unwrap() as usize;
                let n = cmd["n"].as_u64().unwrap() as usize;
                let mut w = win.take().unwrap();
                verif::named_point("mem_write");
                for (j, x) in w.slice()[..k].iter_mut().enumerate() {
                    *x = T::from_id(produced + j as u64 + 1);
                }
                // every committed sample carries one tag: its id
                let tags: Vec<rustradio::stream::Tag> = (0..n)
                    .map(|j| rustradio::stream::Tag::new(j, "id", rustradio::stream::TagValue::U64(produced + j as u64 + 1)))
                    .collect();
                w.produce(n, &tags);
                produced += n as u64;
                emit(json!({"ev": "ret", "op": "put"}));
            }
            "dropwin" => {
                win = None;
                emit(json!({"ev": "ret", "op": "dropwin"}));
            }
            "free" => {
                let f = ws.free();
                emit(json!({"ev": "ret", "op": "free", "free": f}));
            }
            "waitw" => {
                let need = cmd["need"].as_u64().unwrap() as usize;
                let r = ws.wait_for_write(need);
                emit(json!({"ev": "ret", "op": "waitw", "never": r}));
            }
            "drop" => break,
            _ => panic!("bad producer cmd"),
        }
    }
    drop(win);
    drop(ws);
}

fn consumer(rs: ReadStream<T>, cmds: Cmds) {
    verif::thread_start("C");
    let mut win = None;
    let mut consumed: u64 = 0;
    loop {
        verif::named_point("cmd");
        let Some(cmd) = cmds.lock().unwrap().pop_front() else { break };
        match cmd["op"].as_str().unwrap() {
            "acqr" => {
                let (r, tags) = rs.read_buf().unwrap();
                let (s, e) = r.verif_range();
                let tl: Vec<Value> = tags
                    .iter()
                    .map(|t| json!([t.pos(), match t.val() { rustradio::stream::TagValue::U64(v) => *v as i64, _ => -1 }]))
                    .collect();
                emit(json!({"ev": "ret", "op": "acqr", "start": s, "len": e - s, "tags": tl}));
                win = Some(r);
            }
            "get" => {
                let m = cmd["m"].as_u64().unwrap() as usize;
                let r: rustradio::circular_buffer::BufferReader<T> = win.take().unwrap();
                verif::named_point("mem_read");
                let ok = r
                    .slice()
                    .iter()
                    .enumerate()
                    .all(|(j, x)| x.id() == Some(consumed + j as u64 + 1));
                let first = r.slice().first().and_then(|x| x.id()).map(|v| v as i64).unwrap_or(-1);
                emit(json!({"ev": "read", "ok": ok, "first": first, "len": r.len()}));
                r.consume(m);
                consumed += m as u64;
                emit(json!({"ev": "ret", "op": "get"}));
            }
            "dropwin" => {
                win = None;
                emit(json!({"ev": "ret", "op": "dropwin"}));
            }
            "waitr" => {
                let need = cmd["need"].as_u64().unwrap() as usize;
                let r = rs.wait_for_read(need);
                emit(json!({"ev": "ret", "op": "waitr", "never": r}));
            }
            "eof" => {
                let r = rs.eof();
                emit(json!({"ev": "ret", "op": "eof", "eof": r}));
            }
            "drop" => break,
            _ => panic!("bad consumer cmd"),
        }
    }
    drop(win);
    drop(rs);
}


fn nc_pusher(ws: rustradio::stream::NCWriteStream<Vec<u8>>, cmds: Cmds) {
    use rustradio::stream::StreamWait;
    verif::thread_start("P");
    let mut pushed: u64 = 0;
    loop {
        verif::named_point("cmd");
        let Some(cmd) = cmds.lock().unwrap().pop_front() else { break };
        match cmd["op"].as_str().unwrap() {
            "push" => {
                pushed += 1;
                ws.push(pushed.to_le_bytes().to_vec(), &[]);
                emit(json!({"ev": "ret", "op": "push"}));
            }
            "closed" => {
                let r = ws.closed();
                emit(json!({"ev": "ret", "op": "closed", "never": r}));
            }
            "drop" => break,
            _ => panic!("bad pusher cmd"),
        }
    }
    drop(ws);
}

fn nc_popper(rs: rustradio::stream::NCReadStream<Vec<u8>>, cmds: Cmds) {
    use rustradio::stream::StreamWait;
    verif::thread_start("C");
    loop {
        verif::named_point("cmd");
        let Some(cmd) = cmds.lock().unwrap().pop_front() else { break };
        match cmd["op"].as_str().unwrap() {
            "pop" => {
                let r = rs.pop();
                let id = r
                    .map(|(v, _)| u64::from_le_bytes(v[..8].try_into().unwrap()))
                    .unwrap_or(0);
                emit(json!({"ev": "ret", "op": "pop", "id": id}));
            }
            "wait" => {
                let need = cmd["need"].as_u64().unwrap() as usize;
                let r = rs.wait(need);
                emit(json!({"ev": "ret", "op": "wait", "never": r}));
            }
            "eof" => {
                let r = rs.eof();
                emit(json!({"ev": "ret", "op": "eof", "eof": r}));
            }
            "drop" => break,
            _ => panic!("bad popper cmd"),
        }
    }
    drop(rs);
}

fn grant_name(g: &Grant) -> &'static str {
    match g {
        Grant::Go => "go",
        Grant::Timeout => "timeout",
        Grant::Notified => "notified",
    }
}

/// What the driver knows about a client (from its commands and events), to
/// pick commands the discipline allows.
#[derive(Default, Clone)]
struct Mirror {
    has_win: bool,
    win_len: usize,
    moved: u64, // produced / consumed
    last: String, // last return: "never", "eof", ...
    calls: usize,
}

struct Run {
    ctl: Arc<verif::Controller>,
    pcmds: Cmds,
    ccmds: Cmds,
    hp: Option<std::thread::JoinHandle<()>>,
    hc: Option<std::thread::JoinHandle<()>>,
    trace: Vec<Value>,
    p: Mirror,
    c: Mirror,
}

impl Run {
    fn new(cap: usize, nc: bool) -> Self {
        verif::set_thread_stream_size(cap.max(1) * 4096);
        let ctl = verif::install_controller();
        verif::trace_start();
        let pcmds: Cmds = Default::default();
        let ccmds: Cmds = Default::default();
        let (pc, cc) = (pcmds.clone(), ccmds.clone());
        let (hp, hc_fn): (std::thread::JoinHandle<()>, Box<dyn FnOnce() + Send>) = if nc {
            let (ws, rs) = rustradio::stream::new_nocopy_stream::<Vec<u8>>();
            (std::thread::spawn(move || nc_pusher(ws, pc)), Box::new(move || nc_popper(rs, cc)))
        } else {
            let (ws, rs) = new_stream::<T>();
            (std::thread::spawn(move || producer(ws, pc)), Box::new(move || consumer(rs, cc)))
        };
        // Make thread ids deterministic: P registers first.
        while ctl.registered() < 1 {
            std::thread::yield_now();
        }
        let hc = std::thread::spawn(hc_fn);
        while ctl.registered() < 2 {
            std::thread::yield_now();
        }
        Self {
            ctl,
            pcmds,
            ccmds,
            hp: Some(hp),
            hc: Some(hc),
            trace: vec![json!({"t": "-", "pt": "reset", "g": "go", "cap": cap, "evs": []})],
            p: Mirror::default(),
            c: Mirror::default(),
        }
    }
    fn view(&self) -> Vec<ThreadView> {
        self.ctl.settle(2)
    }
    /// Grant thread `name` (optionally with a command), wait for quiescence,
    /// record the step.
    fn step(&mut self, tv: &ThreadView, g: Grant, cmd: Option<Value>) {
        if let Some(c) = &cmd {
            let q = if tv.name == "P" { &self.pcmds } else { &self.ccmds };
            q.lock().unwrap().push_back(c.clone());
            let m = if tv.name == "P" { &mut self.p } else { &mut self.c };
            m.calls += 1;
            match c["op"].as_str().unwrap() {
                "put" => {
                    m.has_win = false;
                    m.moved += c["n"].as_u64().unwrap();
                }
                "get" => {
                    m.has_win = false;
                    m.moved += c["m"].as_u64().unwrap();
                }
                "dropwin" => m.has_win = false,
                "push" => m.moved += 1,
                _ => {}
            }
        }
        // threads that have a pending notification on offer before this grant (lost wakeups show here)
        let nf: Vec<String> = self.ctl.settle(2).iter().filter(|t| t.enabled.contains(&Grant::Notified)).map(|t| t.name.clone()).collect();
        self.ctl.grant(tv.tid, g.clone());
        let _ = self.ctl.settle(2);
        let evs: Vec<Value> = verif::trace_drain()
            .iter()
            .map(|l| serde_json::from_str(l).unwrap())
            .collect();
        for e in &evs {
            if e["ev"] == "ret" {
                let m = if tv.name == "P" { &mut self.p } else { &mut self.c };
                match e["op"].as_str().unwrap() {
                    "acqw" | "acqr" => {
                        m.has_win = true;
                        m.win_len = e["len"].as_u64().unwrap() as usize;
                    }
                    "waitw" | "waitr" | "wait" | "closed" => {
                        m.last = if e["never"] == true { "never".into() } else { "retry".into() }
                    }
                    "eof" => m.last = if e["eof"] == true { "eof".into() } else { "noteof".into() },
                    _ => m.last = String::new(),
                }
            }
        }
        self.trace.push(json!({
            "t": tv.name, "pt": tv.point.kind(), "g": grant_name(&g),
            "cmd": cmd.unwrap_or(json!({"op": "none"})), "evs": evs, "nf": nf}));
    }
    fn finish(mut self) -> Vec<Value> {
        // Let any remaining threads run to completion (empty command queues
        // make clients exit at their next cmd point).
        let mut guard = 0;
        loop {
            let v = self.view();
            if v.is_empty() {
                break;
            }
            let Some(tv) = v.iter().find(|t| !t.enabled.is_empty()) else { break };
            let g = tv.enabled[0].clone();
            let tv = tv.clone();
            // Not recorded: wind-down after the interesting part.
            self.ctl.grant(tv.tid, g);
            guard += 1;
            if guard > 10000 {
                break;
            }
        }
        if let Some(h) = self.hp.take() {
            let _ = h.join();
        }
        if let Some(h) = self.hc.take() {
            let _ = h.join();
        }
        verif::remove_controller();
        let _ = verif::trace_take();
        self.trace
    }
}

/// Pick a command for a client parked at "cmd", following the discipline of
/// the model (StreamMT.tla P_Cmd*/C_Cmd*). None = nothing allowed.
fn pick_cmd(rng: &mut Rng, who: &str, m: &Mirror, total: u64, cap: usize, max_calls: usize, needs: &[usize]) -> Option<Value> {
    let mut opts: Vec<Value> = Vec::new();
    if who == "P" {
        if m.has_win {
            let maxk = m.win_len.min((total - m.moved) as usize);
            if maxk >= 1 {
                for _ in 0..3 {
                    let k = 1 + rng.below(maxk);
                    let n = if rng.chance(3, 4) { k } else { rng.below(k + 1) };
                    opts.push(json!({"op": "put", "k": k, "n": n}));
                }
            }
            opts.push(json!({"op": "dropwin"}));
        } else {
            if m.moved < total {
                for _ in 0..3 {
                    opts.push(json!({"op": "acqw"}));
                }
            }
            if m.calls < max_calls {
                opts.push(json!({"op": "waitw", "need": *rng.pick(needs)}));
                opts.push(json!({"op": "free"}));
            }
            if m.moved == total || m.last == "never" {
                opts.push(json!({"op": "drop"}));
                opts.push(json!({"op": "drop"}));
            }
        }
    } else {
        let stopped = m.last == "never" || m.last == "eof";
        if m.has_win {
            for mm in [0, 1.min(m.win_len), m.win_len, rng.below(m.win_len + 1)] {
                opts.push(json!({"op": "get", "m": mm}));
            }
            opts.push(json!({"op": "dropwin"}));
        } else {
            if !stopped {
                for _ in 0..3 {
                    opts.push(json!({"op": "acqr"}));
                }
                if m.calls < max_calls {
                    opts.push(json!({"op": "waitr", "need": *rng.pick(needs)}));
                    opts.push(json!({"op": "eof"}));
                }
            }
            if stopped || rng.chance(1, 30) {
                opts.push(json!({"op": "drop"}));
            }
        }
    }
    let _ = cap;
    if opts.is_empty() { None } else { Some(opts[rng.below(opts.len())].clone()) }
}


/// Command choice for the packet-stream clients (NCStream.tla P_Cmd*/C_Cmd*).
fn pick_nc_cmd(rng: &mut Rng, who: &str, m: &Mirror, total: u64, max_calls: usize, needs: &[usize]) -> Option<Value> {
    let mut opts: Vec<Value> = Vec::new();
    if who == "P" {
        if m.moved < total {
            for _ in 0..3 {
                opts.push(json!({"op": "push"}));
            }
        }
        if m.calls < max_calls {
            opts.push(json!({"op": "closed"}));
        }
        if m.moved == total || m.last == "never" {
            opts.push(json!({"op": "drop"}));
        }
    } else {
        let stopped = m.last == "never" || m.last == "eof";
        if !stopped {
            for _ in 0..3 {
                opts.push(json!({"op": "pop"}));
            }
            if m.calls < max_calls {
                opts.push(json!({"op": "wait", "need": *rng.pick(needs)}));
                opts.push(json!({"op": "eof"}));
            }
        }
        if stopped || rng.chance(1, 30) {
            opts.push(json!({"op": "drop"}));
        }
    }
    if opts.is_empty() { None } else { Some(opts[rng.below(opts.len())].clone()) }
}

/// One random run. Returns the step trace.
fn random_run(seed: u64, cap: usize, total: u64, max_calls: usize, needs: &[usize], nc: bool) -> Vec<Value> {
    let mut rng = Rng::new(seed);
    let mut run = Run::new(cap, nc);
    // Priority-style scheduling: with some probability keep running the same
    // thread; timeouts are forced with moderate probability.
    let mut last: Option<String> = None;
    let stick = rng.below(4); // 0: uniform .. 3: very sticky
    for _ in 0..600 {
        let v = run.view();
        if v.is_empty() {
            break;
        }
        let mut cands: Vec<(ThreadView, Grant, Option<Value>)> = Vec::new();
        for tv in &v {
            if tv.point == Point::Named("cmd") {
                let m = if tv.name == "P" { &run.p } else { &run.c };
                let picked = if nc {
                    pick_nc_cmd(&mut rng, &tv.name, m, total, max_calls, needs)
                } else {
                    pick_cmd(&mut rng, &tv.name, m, total, cap, max_calls, needs)
                };
                if let Some(c) = picked {
                    cands.push((tv.clone(), Grant::Go, Some(c)));
                }
            } else {
                for g in &tv.enabled {
                    cands.push((tv.clone(), g.clone(), None));
                }
            }
        }
        if cands.is_empty() {
            break;
        }
        let same: Vec<usize> = cands
            .iter()
            .enumerate()
            .filter(|(_, c)| Some(&c.0.name) == last.as_ref())
            .map(|(i, _)| i)
            .collect();
        let i = if !same.is_empty() && rng.below(4) < stick {
            same[rng.below(same.len())]
        } else {
            rng.below(cands.len())
        };
        let (tv, g, cmd) = cands[i].clone();
        last = Some(tv.name.clone());
        run.step(&tv, g, cmd);
    }
    run.finish()
}

/// mt-random --out FILE --seed S --runs R --cap C --total N
pub fn cmd_random(args: &[String]) -> i32 {
    quiet_panics();
    let out = arg_val(args, "--out").expect("--out");
    let seed = arg_usize(args, "--seed", 1) as u64;
    let runs = arg_usize(args, "--runs", 10);
    let cap = arg_usize(args, "--cap", 4);
    let total = arg_usize(args, "--total", 8) as u64;
    let max_calls = arg_usize(args, "--calls", 12);
    let nc = args.iter().any(|a| a == "--nc");
    let mut f = std::io::BufWriter::new(std::fs::File::create(&out).expect("create"));
    let mut steps = 0;
    for r in 0..runs {
        let needs: Vec<usize> = if nc { vec![1, 2, 3] } else { vec![1, 2.min(cap), cap, cap / 2 + 1, cap + 1] };  // incl. more than the stream can ever hold
        let tr = random_run(seed.wrapping_mul(100003).wrapping_add(r as u64), cap, total, max_calls, &needs, nc);
        steps += tr.len();
        for s in tr {
            writeln!(f, "{s}").unwrap();
        }
    }
    f.flush().unwrap();
    println!("{}", json!({"runs": runs, "steps": steps}));
    0
}

/// Execute one schedule: a list of {t, pt, g, cmd}. Stops with a "diverged"
/// record if the real threads cannot follow it.
fn replay_schedule(cap: usize, sched: &[Value], nc: bool) -> Vec<Value> {
    let mut run = Run::new(cap, nc);
    for (i, s) in sched.iter().enumerate() {
        let v = run.view();
        let want_t = s["t"].as_str().unwrap();
        let want_pt = s["pt"].as_str().unwrap();
        let want_g = match s["g"].as_str().unwrap() {
            "timeout" => Grant::Timeout,
            "notified" => Grant::Notified,
            _ => Grant::Go,
        };
        let tv = v.iter().find(|t| t.name == want_t);
        let ok = match tv {
            Some(tv) => tv.point.kind() == want_pt && tv.enabled.contains(&want_g),
            None => false,
        };
        if !ok {
            run.trace.push(json!({"t": want_t, "pt": "diverged", "g": "go", "step": i,
                "want": s, "have": v.iter().map(|t| json!({"t": t.name, "pt": t.point.kind(),
                "enabled": t.enabled.iter().map(grant_name).collect::<Vec<_>>()})).collect::<Vec<_>>(),
                "evs": []}));
            break;
        }
        let tv = tv.unwrap().clone();
        let cmd = if s["cmd"].is_null() || s["cmd"]["op"] == "none" { None } else { Some(s["cmd"].clone()) };
        run.step(&tv, want_g, cmd);
    }
    run.finish()
}

/// mt-replay --paths FILE --out FILE --cap C
pub fn cmd_replay(args: &[String]) -> i32 {
    quiet_panics();
    let file = arg_val(args, "--paths").expect("--paths");
    let out = arg_val(args, "--out").expect("--out");
    let cap = arg_usize(args, "--cap", 2);
    let nc = args.iter().any(|a| a == "--nc");
    let f = std::io::BufReader::new(std::fs::File::open(&file).expect("open"));
    let mut o = std::io::BufWriter::new(std::fs::File::create(&out).expect("create"));
    let (mut paths, mut steps, mut diverged) = (0, 0, 0);
    for line in f.lines() {
        let line = line.unwrap();
        if line.trim().is_empty() {
            continue;
        }
        let sched: Vec<Value> = serde_json::from_str(&line).expect("json");
        let tr = replay_schedule(cap, &sched, nc);
        paths += 1;
        steps += tr.len();
        if tr.iter().any(|s| s["pt"] == "diverged") {
            diverged += 1;
        }
        for s in tr {
            writeln!(o, "{s}").unwrap();
        }
    }
    o.flush().unwrap();
    println!("{}", json!({"paths": paths, "steps": steps, "diverged": diverged}));
    0
}
