//! Registry of blocks under test: builds a block by name with bench ports.
use crate::bench::*;
use crate::common::*;
use crate::graphs::Big;
use rustradio::blocks::*;
use rustradio::stream::{ReadStream, TagValue};
use rustradio::{Complex, Float};
use serde_json::Value;

fn gen_data<T: Val>(spec: &Value, port: usize, rng: &mut Rng) -> Vec<T> {
    // explicit integer data (bits, bytes) given by the scenario
    if let Some(a) = spec["data"][port].as_array() {
        let mut ix = 0usize;
        return a.iter().map(|v| {
            ix += 1;
            // [re, im] pairs give explicit complex samples
            match v.as_array() {
                Some(c) => T::generate(&format!("litc:{},{}", c[0].as_i64().unwrap_or(0), c[1].as_i64().unwrap_or(0)), ix, rng),
                None => T::generate(&format!("lit:{}", v.as_i64().unwrap_or(0)), ix, rng),
            }
        }).collect();
    }
    let len = spec["lens"][port].as_u64().or(spec["len"].as_u64()).unwrap_or(0) as usize;
    let kind = spec["kinds"][port].as_str().or(spec["kind"].as_str()).unwrap_or("small").to_string();
    (0..len).map(|i| T::generate(&kind, i, rng)).collect()
}
fn gen_tags(spec: &Value, port: usize, len: usize, rng: &mut Rng) -> Vec<(usize, String, TagValue)> {
    let mode = spec["tags"].as_str().unwrap_or("none");
    let mut out = Vec::new();
    if mode == "none" || len == 0 {
        return out;
    }
    let mut id = 1 + 1000 * port as u64;
    let mut push = |out: &mut Vec<(usize, String, TagValue)>, p: usize| {
        out.push((p, format!("p{port}"), TagValue::U64(id)));
        id += 1;
    };
    match mode {
        "burst" => {
            // alternating burst start (true) / end (false) tags
            let mut p = rng.below(4);
            let mut on = true;
            while p < len {
                out.push((p, "burst".to_string(), TagValue::Bool(on)));
                on = !on;
                p += 1 + rng.below(7);
            }
            return out;
        }
        "burst_stray" => {
            // hostile burst tags: random start/end tags in any order, repeated, adjacent,
            // ends without a start, several on one sample, a non-bool value now and then
            let mut p = rng.below(3);
            while p < len {
                let v = match rng.below(8) {
                    0..=2 => TagValue::Bool(true),
                    3..=6 => TagValue::Bool(false),
                    _ => TagValue::U64(7),
                };
                out.push((p, "burst".to_string(), v));
                if rng.chance(1, 5) {
                    out.push((p, "burst".to_string(), TagValue::Bool(rng.chance(1, 2))));
                }
                p += rng.below(5);
            }
            return out;
        }
        "sync" => {
            // frame sync marks (IL2P deframer): one every 1..250 samples, now and then two close together
            let mut p = rng.below(20);
            while p < len {
                out.push((p, "sync".to_string(), TagValue::Bool(true)));
                p += 1 + if rng.chance(1, 4) { rng.below(6) } else { rng.below(250) };
            }
            return out;
        }
        "first_last" => {
            push(&mut out, 0);
            push(&mut out, len - 1);
        }
        "dense" => {
            for p in 0..len {
                push(&mut out, p);
                if rng.chance(1, 3) {
                    push(&mut out, p);
                }
            }
        }
        _ => {
            // sparse + clusters around small multiples (chunk boundaries)
            let mut p = rng.below(3);
            while p < len {
                push(&mut out, p);
                if rng.chance(1, 4) {
                    push(&mut out, p);
                }
                let span = if rng.chance(1, 2) { 2 } else { 9 };
                p += 1 + rng.below(span);
            }
        }
    }
    out.sort_by_key(|t| t.0);
    out
}
pub fn ring_in<T: Val>(spec: &Value, port: usize, rng: &mut Rng) -> (Box<dyn InPort>, ReadStream<T>) {
    let data = gen_data::<T>(spec, port, rng);
    let tags = gen_tags(spec, port, data.len(), rng);
    let (p, r) = InRing::new(data, tags);
    (Box::new(p), r)
}
fn ring_out<T: Val>(r: ReadStream<T>) -> Box<dyn OutPort> {
    Box::new(OutRing::new(r))
}
fn pu(spec: &Value, name: &str, default: u64) -> u64 {
    spec["params"][name].as_u64().unwrap_or(default)
}
fn pf(spec: &Value, name: &str, default: f64) -> Float {
    spec["params"][name].as_f64().unwrap_or(default) as Float
}
fn pbits(spec: &Value, name: &str) -> Vec<u8> {
    spec["params"][name].as_array().map(|a| a.iter().map(|v| v.as_u64().unwrap() as u8).collect()).unwrap_or_else(|| vec![1, 0, 1])
}
/// taps as numbers (real) or [re, im] pairs
fn pcomplex(spec: &Value, name: &str) -> Vec<Complex> {
    match spec["params"][name].as_array() {
        Some(a) => a.iter().map(|v| match v.as_array() {
            Some(c) => Complex::new(c[0].as_f64().unwrap_or(0.0) as Float, c[1].as_f64().unwrap_or(0.0) as Float),
            None => Complex::new(v.as_f64().unwrap_or(0.0) as Float, 0.0),
        }).collect(),
        None => vec![Complex::new(1.0, 0.0), Complex::new(2.0, 0.0), Complex::new(3.0, 0.0)],
    }
}
fn pfloats(spec: &Value, name: &str, default: &[Float]) -> Vec<Float> {
    spec["params"][name].as_array().map(|a| a.iter().map(|v| v.as_f64().unwrap() as Float).collect()).unwrap_or_else(|| default.to_vec())
}

fn repeat_of(spec: &Value) -> Option<rustradio::Repeat> {
    spec["params"]["repeat"].as_i64().map(|r| if r < 0 { rustradio::Repeat::infinite() } else { rustradio::Repeat::finite(r as u64) })
}
thread_local! {
    /// temp dirs of the current scenario (file backed sources / sinks)
    pub static TMPDIRS: std::cell::RefCell<Vec<tempfile::TempDir>> = const { std::cell::RefCell::new(Vec::new()) };
}
fn new_tmpdir() -> std::path::PathBuf {
    let d = tempfile::tempdir().expect("tempdir");
    let p = d.path().to_path_buf();
    TMPDIRS.with(|t| t.borrow_mut().push(d));
    p
}
/// Serialise samples little-endian.
fn le_bytes_u8(d: &[u8]) -> Vec<u8> {
    d.to_vec()
}
fn le_bytes_u32(d: &[u32]) -> Vec<u8> {
    d.iter().flat_map(|x| x.to_le_bytes()).collect()
}
fn le_bytes_i32(d: &[i32]) -> Vec<u8> {
    d.iter().flat_map(|x| x.to_le_bytes()).collect()
}
fn sigmf_files(spec: &Value, datatype: &str, data: &[u8]) -> std::path::PathBuf {
    let dir = new_tmpdir();
    let meta = serde_json::json!({"global": {"core:datatype": datatype, "core:version": "1.1.0", "core:sample_rate": 1000.0},
        "captures": [{"core:sample_start": 0}], "annotations": []}).to_string();
    if spec["params"]["archive"].as_bool().unwrap_or(false) {
        // members in the order given by params.order (a permutation index), with unrelated members around
        let path = dir.join("rec.sigmf");
        let f = std::fs::File::create(&path).unwrap();
        let mut tb = tar::Builder::new(f);
        let mut add = |name: &str, content: &[u8]| {
            let mut h = tar::Header::new_gnu();
            h.set_size(content.len() as u64);
            h.set_mode(0o644);
            h.set_cksum();
            tb.append_data(&mut h, name, content).unwrap();
        };
        let order = spec["params"]["order"].as_u64().unwrap_or(0);
        let members: Vec<(&str, Vec<u8>)> = vec![
            ("README.txt", b"unrelated member".to_vec()),
            ("rec/x.sigmf-meta", meta.as_bytes().to_vec()),
            ("rec/x.sigmf-data", data.to_vec()),
            ("rec/other.bin", vec![7u8; 700]),
        ];
        let perms: [[usize; 4]; 6] = [[0, 1, 2, 3], [2, 1, 0, 3], [3, 2, 0, 1], [1, 3, 2, 0], [2, 3, 1, 0], [0, 3, 2, 1]];
        for i in perms[(order % 6) as usize] {
            add(members[i].0, &members[i].1);
        }
        tb.finish().unwrap();
        path
    } else {
        let base = dir.join("rec.sigmf");
        std::fs::write(dir.join("rec.sigmf-meta"), meta).unwrap();
        std::fs::write(dir.join("rec.sigmf-data"), data).unwrap();
        base
    }
}

/// Delay<u8> with a set_delay() call before its `at`-th work() call.
struct DelaySet {
    inner: Delay<u8>,
    new: usize,
    at: usize,
    calls: usize,
}
impl rustradio::block::BlockName for DelaySet {
    fn block_name(&self) -> &str {
        "DelaySet"
    }
}
impl rustradio::block::BlockEOF for DelaySet {
    fn eof(&mut self) -> bool {
        self.inner.eof()
    }
}
impl rustradio::block::Block for DelaySet {
    fn work(&mut self) -> rustradio::Result<rustradio::block::BlockRet<'_>> {
        self.calls += 1;
        if self.calls == self.at {
            self.inner.set_delay(self.new);
        }
        self.inner.work()
    }
}

macro_rules! rig {
    ($b:expr, [$($i:expr),*], [$($o:expr),*]) => {
        Ok(Rig { block: Box::new($b), ins: vec![$($i),*], outs: vec![$($o),*] })
    };
}

/// Build the rig for `spec["block"]`.
pub fn make(spec: &Value, rng: &mut Rng) -> Result<Rig, String> {
    let name = spec["block"].as_str().ok_or("no block name")?;
    let cap_bytes = spec["stream_bytes"].as_u64().unwrap_or(4096) as usize;
    rustradio::verif::set_thread_stream_size(cap_bytes);
    match name {
        // ---- derive(sync) blocks
        "AddConst<Big>" => {
            let (i, r) = ring_in::<Big>(spec, 0, rng);
            let (b, o) = AddConst::new(r, Big::of(pu(spec, "val", 1000)));
            rig!(b, [i], [ring_out(o)])
        }
        "AddConst<Float>" => {
            let (i, r) = ring_in::<Float>(spec, 0, rng);
            let (b, o) = AddConst::new(r, pf(spec, "val", 3.0));
            rig!(b, [i], [ring_out(o)])
        }
        "add_const<Float>" => {
            let (i, r) = ring_in::<Float>(spec, 0, rng);
            let (b, o) = add_const(r, pf(spec, "val", 3.0));
            rig!(b, [i], [ring_out(o)])
        }
        "MultiplyConst<Float>" => {
            let (i, r) = ring_in::<Float>(spec, 0, rng);
            let (b, o) = MultiplyConst::new(r, pf(spec, "val", 3.0));
            rig!(b, [i], [ring_out(o)])
        }
        "XorConst<u8>" => {
            let (i, r) = ring_in::<u8>(spec, 0, rng);
            let (b, o) = XorConst::new(r, pu(spec, "val", 0x5a) as u8);
            rig!(b, [i], [ring_out(o)])
        }
        "Add<Float>" => {
            let (i1, r1) = ring_in::<Float>(spec, 0, rng);
            let (i2, r2) = ring_in::<Float>(spec, 1, rng);
            let (b, o) = Add::new(r1, r2);
            rig!(b, [i1, i2], [ring_out::<Float>(o)])
        }
        "Add<Big>" => {
            let (i1, r1) = ring_in::<Big>(spec, 0, rng);
            let (i2, r2) = ring_in::<Big>(spec, 1, rng);
            let (b, o) = Add::new(r1, r2);
            rig!(b, [i1, i2], [ring_out::<Big>(o)])
        }
        "Xor<u8>" => {
            let (i1, r1) = ring_in::<u8>(spec, 0, rng);
            let (i2, r2) = ring_in::<u8>(spec, 1, rng);
            let (b, o) = Xor::new(r1, r2);
            rig!(b, [i1, i2], [ring_out(o)])
        }
        "Tee<Big>" => {
            let (i, r) = ring_in::<Big>(spec, 0, rng);
            let (b, o1, o2) = Tee::new(r);
            rig!(b, [i], [ring_out(o1), ring_out(o2)])
        }
        "Tee<u8>" => {
            let (i, r) = ring_in::<u8>(spec, 0, rng);
            let (b, o1, o2) = Tee::new(r);
            rig!(b, [i], [ring_out(o1), ring_out(o2)])
        }
        "FloatToComplex" => {
            let (i1, r1) = ring_in::<Float>(spec, 0, rng);
            let (i2, r2) = ring_in::<Float>(spec, 1, rng);
            let (b, o) = FloatToComplex::new(r1, r2);
            rig!(b, [i1, i2], [ring_out(o)])
        }
        "BinarySlicer" => {
            let (i, r) = ring_in::<Float>(spec, 0, rng);
            let (b, o) = BinarySlicer::new(r);
            rig!(b, [i], [ring_out(o)])
        }
        "ComplexToMag2" => {
            let (i, r) = ring_in::<Complex>(spec, 0, rng);
            let (b, o) = ComplexToMag2::new(r);
            rig!(b, [i], [ring_out(o)])
        }
        "NrziDecode" => {
            let (i, r) = ring_in::<u8>(spec, 0, rng);
            let (b, o) = NrziDecode::new(r);
            rig!(b, [i], [ring_out(o)])
        }
        "Descrambler" => {
            let (i, r) = ring_in::<u8>(spec, 0, rng);
            let (b, o) = Descrambler::new(r, pu(spec, "mask", 0x21), pu(spec, "seed", 0), pu(spec, "len", 16) as u8);
            rig!(b, [i], [ring_out(o)])
        }
        "CorrelateAccessCode" => {
            let (i, r) = ring_in::<u8>(spec, 0, rng);
            let (b, o) = CorrelateAccessCode::new(r, pbits(spec, "code"), pu(spec, "allowed", 0) as usize);
            rig!(b, [i], [ring_out(o)])
        }
        "CorrelateAccessCodeTag" => {
            let (i, r) = ring_in::<u8>(spec, 0, rng);
            let (b, o) = CorrelateAccessCodeTag::new(r, pbits(spec, "code"), "sync", pu(spec, "allowed", 0) as usize);
            rig!(b, [i], [ring_out(o)])
        }
        "BurstTagger<u8>" => {
            let (i1, r1) = ring_in::<u8>(spec, 0, rng);
            let (i2, r2) = ring_in::<Float>(spec, 1, rng);
            let (b, o) = BurstTagger::new(r1, r2, pf(spec, "threshold", 0.5), "burst");
            rig!(b, [i1, i2], [ring_out(o)])
        }
        "QuadratureDemod" => {
            let (i, r) = ring_in::<Complex>(spec, 0, rng);
            let (b, o) = QuadratureDemod::new(r, pf(spec, "gain", 1.0));
            rig!(b, [i], [ring_out(o)])
        }
        "FastFM" => {
            let (i, r) = ring_in::<Complex>(spec, 0, rng);
            let (b, o) = FastFM::new(r);
            rig!(b, [i], [ring_out(o)])
        }
        "SinglePoleIirFilter<Float>" => {
            let (i, r) = ring_in::<Float>(spec, 0, rng);
            let (b, o) = SinglePoleIirFilter::new(r, pf(spec, "alpha", 0.5)).ok_or("bad alpha")?;
            rig!(b, [i], [ring_out(o)])
        }
        // ---- hand-written work()
        "Delay<Big>" => {
            let (i, r) = ring_in::<Big>(spec, 0, rng);
            let (b, o) = Delay::new(r, pu(spec, "delay", 2) as usize);
            rig!(b, [i], [ring_out(o)])
        }
        "Delay<u8>" => {
            let (i, r) = ring_in::<u8>(spec, 0, rng);
            let (b, o) = Delay::new(r, pu(spec, "delay", 2) as usize);
            rig!(b, [i], [ring_out(o)])
        }
        "DelaySet<u8>" => {
            // Delay whose delay is changed (set_delay) before its `at`-th work() call
            let (i, r) = ring_in::<u8>(spec, 0, rng);
            let (b, o) = Delay::new(r, pu(spec, "delay", 3) as usize);
            let w = DelaySet { inner: b, new: pu(spec, "new_delay", 1) as usize, at: pu(spec, "at", 2) as usize, calls: 0 };
            rig!(w, [i], [ring_out(o)])
        }
        "Skip<Big>" => {
            let (i, r) = ring_in::<Big>(spec, 0, rng);
            let (b, o) = Skip::new(r, pu(spec, "skip", 2) as usize);
            rig!(b, [i], [ring_out(o)])
        }
        "Skip<u8>" => {
            let (i, r) = ring_in::<u8>(spec, 0, rng);
            let (b, o) = Skip::new(r, pu(spec, "skip", 2) as usize);
            rig!(b, [i], [ring_out(o)])
        }
        "RationalResampler<Big>" => {
            let (i, r) = ring_in::<Big>(spec, 0, rng);
            let (b, o) = RationalResampler::new(r, pu(spec, "interp", 1) as usize, pu(spec, "deci", 2) as usize).map_err(|e| format!("{e}"))?;
            rig!(b, [i], [ring_out(o)])
        }
        "RationalResampler<u8>" => {
            let (i, r) = ring_in::<u8>(spec, 0, rng);
            let (b, o) = RationalResampler::new(r, pu(spec, "interp", 1) as usize, pu(spec, "deci", 2) as usize).map_err(|e| format!("{e}"))?;
            rig!(b, [i], [ring_out(o)])
        }
        "RtlSdrDecode" => {
            let (i, r) = ring_in::<u8>(spec, 0, rng);
            let (b, o) = RtlSdrDecode::new(r);
            rig!(b, [i], [ring_out(o)])
        }
        "FirFilter<Float>" => {
            let (i, r) = ring_in::<Float>(spec, 0, rng);
            let taps = pfloats(spec, "taps", &[1.0, 2.0, 3.0]);
            let (b, o) = FirFilterBuilder::new(&taps).deci(pu(spec, "deci", 1) as usize).build(r);
            rig!(b, [i], [ring_out(o)])
        }
        "FirFilter<Complex>" => {
            let (i, r) = ring_in::<Complex>(spec, 0, rng);
            let taps = pcomplex(spec, "taps");
            let (b, o) = FirFilterBuilder::new(&taps).deci(pu(spec, "deci", 1) as usize).build(r);
            rig!(b, [i], [ring_out(o)])
        }
        "FftFilterFloat" => {
            let (i, r) = ring_in::<Float>(spec, 0, rng);
            let taps = pfloats(spec, "taps", &[1.0, 2.0, 3.0]);
            let (b, o) = FftFilterFloat::new(r, &taps);
            rig!(b, [i], [ring_out(o)])
        }
        "FftFilter" => {
            let (i, r) = ring_in::<Complex>(spec, 0, rng);
            let taps = pcomplex(spec, "taps");
            let (b, o) = FftFilter::new(r, &taps);
            rig!(b, [i], [ring_out(o)])
        }
        "Hilbert" => {
            let (i, r) = ring_in::<Float>(spec, 0, rng);
            let (b, o) = Hilbert::new(r, pu(spec, "ntaps", 5) as usize, &rustradio::window::WindowType::Hamming);
            rig!(b, [i], [ring_out(o)])
        }
        "FftStream" => {
            let (i, r) = ring_in::<Complex>(spec, 0, rng);
            let (b, o) = FftStream::new(r, pu(spec, "size", 4) as usize);
            rig!(b, [i], [ring_out(o)])
        }
        "ZeroCrossing" => {
            let (i, r) = ring_in::<Float>(spec, 0, rng);
            let (b, o) = ZeroCrossing::new(r, pf(spec, "sps", 4.0), 0.1);
            rig!(b, [i], [ring_out(o)])
        }
        "ZeroCrossingClock" => {
            // with the recovered clock as a second output
            let (i, r) = ring_in::<Float>(spec, 0, rng);
            let (mut b, o) = ZeroCrossing::new(r, pf(spec, "sps", 4.0), 0.1);
            let c = b.out_clock();
            rig!(b, [i], [ring_out(o), ring_out(c)])
        }
        "SymbolSync" => {
            let (i, r) = ring_in::<Float>(spec, 0, rng);
            let sps = pf(spec, "sps", 4.0);
            let filter = rustradio::iir_filter::IirFilter::new(&[0.1 as Float, 0.9]);
            let (b, o) = rustradio::symbol_sync::SymbolSync::new(r, sps, 0.5,
                Box::new(rustradio::symbol_sync::TedZeroCrossing::new()), Box::new(filter));
            rig!(b, [i], [ring_out(o)])
        }
        "Map<u8>" => {
            let (i, r) = ring_in::<u8>(spec, 0, rng);
            let (b, o) = MapBuilder::new(r, |x: u8| x.wrapping_mul(3).wrapping_add(1)).name("times3plus1").build();
            rig!(b, [i], [ring_out(o)])
        }
        "Map<Float,Complex>" => {
            let (i, r) = ring_in::<Float>(spec, 0, rng);
            let (b, o) = MapBuilder::new(r, |x: Float| Complex::new(x, -x)).build();
            rig!(b, [i], [ring_out(o)])
        }
        "CmaEqualizer" => {
            let (i, r) = ring_in::<Complex>(spec, 0, rng);
            let (b, o) = CmaEqualizer::new(pu(spec, "ntaps", 1) as usize, 1.0, 0.001, r);
            rig!(b, [i], [ring_out(o)])
        }
        "DebugFilter<u8>" => {
            let (i, r) = ring_in::<u8>(spec, 0, rng);
            let (b, o) = DebugFilter::new(r);
            rig!(b, [i], [Box::new(crate::bench::OutStr::new(o))])
        }
        "ToText<u8>" => {
            let (i, r) = ring_in::<u8>(spec, 0, rng);
            let (b, o) = ToText::new(vec![r]);
            rig!(b, [i], [ring_out(o)])
        }
        "ToText2<u8>" => {
            let (i1, r1) = ring_in::<u8>(spec, 0, rng);
            let (i2, r2) = ring_in::<u8>(spec, 1, rng);
            let (b, o) = ToText::new(vec![r1, r2]);
            rig!(b, [i1, i2], [ring_out(o)])
        }
        "StreamToPdu<u8>" => {
            let (i, r) = ring_in::<u8>(spec, 0, rng);
            let (b, o) = StreamToPdu::new(r, "burst", pu(spec, "max", 20) as usize, pu(spec, "tail", 2) as usize);
            rig!(b, [i], [Box::new(OutPkt::new(o))])
        }
        "VecToStream<u8>" => {
            let data: Vec<Vec<u8>> = spec["packets"].as_array().map(|a| a.iter().map(|p| p.as_array().unwrap().iter().map(|v| v.as_u64().unwrap() as u8).collect()).collect())
                .unwrap_or_else(|| {
                    let n = spec["len"].as_u64().unwrap_or(5) as usize;
                    (0..n).map(|k| (0..rng.below(6)).map(|j| (k * 16 + j) as u8).collect()).collect()
                });
            let (p, r) = InPkt::new(data);
            let (b, o) = VecToStream::new(r);
            rig!(b, [Box::new(p)], [ring_out(o)])
        }
        "HdlcDeframer" => {
            let (i, r) = ring_in::<u8>(spec, 0, rng);
            let (mut b, o) = HdlcDeframer::new(r, pu(spec, "min", 2) as usize, pu(spec, "max", 30) as usize);
            if spec["params"]["fix_bits"].as_bool().unwrap_or(false) {
                b.set_fix_bits(true);
            }
            if let Some(k) = spec["params"]["checksum"].as_bool() {
                b.set_checksum(k);
            }
            rig!(b, [i], [Box::new(OutPkt::new(o))])
        }
        "Hasher" => {
            // the digest is pushed when the block is dropped (spec flag drop_flush)
            let (i, r) = ring_in::<u8>(spec, 0, rng);
            let (b, o) = rustradio::hasher::sha512(r);
            rig!(b, [i], [Box::new(OutPkt::new(o))])
        }
        "Il2pDeframer" => {
            let (i, r) = ring_in::<u8>(spec, 0, rng);
            let (b, o) = Il2pDeframer::new(r);
            rig!(b, [i], [Box::new(OutPkt::new(o))])
        }
        "AuEncode" => {
            let (i, r) = ring_in::<Float>(spec, 0, rng);
            let (b, o) = AuEncode::new(r, rustradio::au::Encoding::Pcm16, pu(spec, "rate", 8000) as u32, 1);
            rig!(b, [i], [ring_out(o)])
        }
        "AuDecode" => {
            let (i, r) = ring_in::<u8>(spec, 0, rng);
            let (b, o) = AuDecode::new(r, pu(spec, "rate", 8000) as u32);
            rig!(b, [i], [ring_out(o)])
        }
        "Midpointer" | "Wpcr" => {
            let data: Vec<Vec<Float>> = spec["packets"].as_array().map(|a| a.iter().map(|p| p.as_array().unwrap().iter().map(|v| match v.as_str() {
                Some("nan") => Float::NAN, Some("inf") => Float::INFINITY, _ => v.as_f64().unwrap_or(0.0) as Float }).collect()).collect())
                .unwrap_or_default();
            let (p, r) = InPkt::new(data);
            if name == "Midpointer" {
                let (b, o) = Midpointer::new(r);
                rig!(b, [Box::new(p)], [Box::new(OutPkt::new(o))])
            } else {
                let (b, o) = WpcrBuilder::new(r).samp_rate(50000.0).build();
                rig!(b, [Box::new(p)], [Box::new(OutPkt::new(o))])
            }
        }
        "NullSink<u8>" => {
            let (i, r) = ring_in::<u8>(spec, 0, rng);
            let b = NullSink::new(r);
            rig!(b, [i], [])
        }
        "VectorSink<u8>" => {
            let (i, r) = ring_in::<u8>(spec, 0, rng);
            let b = VectorSink::new(r, pu(spec, "max", 1 << 20) as usize);
            rig!(b, [i], [])
        }
        "VectorSource<Big>" => {
            let data = gen_data::<Big>(spec, 0, rng);
            SRC_DATA.with(|d| *d.borrow_mut() = data.iter().map(|x| x.num().unwrap_or(NONUM)).collect());
            let (mut b, o) = VectorSource::new(data);
            if let Some(r) = repeat_of(spec) {
                b.set_repeat(r);
            }
            rig!(b, [], [ring_out(o)])
        }
        "VectorSource<u8>" => {
            let data = gen_data::<u8>(spec, 0, rng);
            SRC_DATA.with(|d| *d.borrow_mut() = data.iter().map(|x| x.num().unwrap_or(NONUM)).collect());
            let (mut b, o) = VectorSource::new(data);
            if let Some(r) = repeat_of(spec) {
                b.set_repeat(r);
            }
            rig!(b, [], [ring_out(o)])
        }
        "FileSource<u8>" | "FileSource<u32>" => {
            let dir = new_tmpdir();
            let path = dir.join("data.bin");
            let extra = pu(spec, "extra", 0) as usize;
            if name == "FileSource<u8>" {
                let data = gen_data::<u8>(spec, 0, rng);
                SRC_DATA.with(|d| *d.borrow_mut() = data.iter().map(|x| x.num().unwrap_or(NONUM)).collect());
                std::fs::write(&path, le_bytes_u8(&data)).unwrap();
                let (mut b, o) = FileSource::<u8>::new(&path).map_err(|e| format!("{e}"))?;
                if let Some(r) = repeat_of(spec) {
                    b.repeat(r);
                }
                rig!(b, [], [ring_out(o)])
            } else {
                let data = gen_data::<u32>(spec, 0, rng);
                SRC_DATA.with(|d| *d.borrow_mut() = data.iter().map(|x| x.num().unwrap_or(NONUM)).collect());
                let mut bytes = le_bytes_u32(&data);
                bytes.extend(std::iter::repeat(0xEE).take(extra));   // trailing partial sample
                std::fs::write(&path, bytes).unwrap();
                let (mut b, o) = FileSource::<u32>::new(&path).map_err(|e| format!("{e}"))?;
                if let Some(r) = repeat_of(spec) {
                    b.repeat(r);
                }
                rig!(b, [], [ring_out(o)])
            }
        }
        "SigMFSource<u8>" => {
            let data = gen_data::<u8>(spec, 0, rng);
            SRC_DATA.with(|d| *d.borrow_mut() = data.iter().map(|x| x.num().unwrap_or(NONUM)).collect());
            let path = sigmf_files(spec, "ru8_le", &le_bytes_u8(&data));
            let mut bld = SigMFSourceBuilder::<u8>::new(path);
            if let Some(r) = repeat_of(spec) {
                bld = bld.repeat(r);
            }
            let (b, o) = bld.build().map_err(|e| format!("{e}"))?;
            rig!(b, [], [ring_out(o)])
        }
        "SigMFSource<i32>" => {
            let data = gen_data::<i32>(spec, 0, rng);
            SRC_DATA.with(|d| *d.borrow_mut() = data.iter().map(|x| x.num().unwrap_or(NONUM)).collect());
            let mut bytes = le_bytes_i32(&data);
            bytes.extend(std::iter::repeat(0xEE).take(pu(spec, "extra", 0) as usize));   // trailing partial sample
            let path = sigmf_files(spec, "ri32_le", &bytes);
            let mut bld = SigMFSourceBuilder::<i32>::new(path);
            if let Some(r) = repeat_of(spec) {
                bld = bld.repeat(r);
            }
            let (b, o) = bld.build().map_err(|e| format!("{e}"))?;
            rig!(b, [], [ring_out(o)])
        }
        "ConstantSource<u8>" => {
            let (b, o) = ConstantSource::new(pu(spec, "val", 7) as u8);
            rig!(b, [], [ring_out(o)])
        }
        "SignalSourceFloat" => {
            let (b, o) = SignalSourceFloat::new(8000.0, 1000.0, 1.0);
            rig!(b, [], [ring_out(o)])
        }
        "SignalSourceComplex" => {
            let (b, o) = SignalSourceComplex::new(8000.0, 1000.0, 1.0);
            rig!(b, [], [ring_out(o)])
        }
        _ => crate::userblocks::make(spec, rng),
    }
}
