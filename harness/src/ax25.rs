//! C20: end-to-end AX.25 receive chains as assembled in examples/ax25-1200-rx.rs
//! and examples/ax25-9600-rx.rs (the 9600 chain with the ZeroCrossing block in
//! the clock recovery position), fed by independent modulators written here.
//! Events: tx (frame id, payload) / rx (payload -> frame id or -1) per scenario,
//! validated by specs/Ax25Link_Trace.tla.
use crate::common::*;
use rustradio::block::{Block, BlockRet};
use rustradio::blocks::*;
use rustradio::graph::{Graph, GraphRunner};
use rustradio::mtgraph::MTGraph;
use rustradio::stream::NCReadStream;
use rustradio::window::WindowType;
use rustradio::{Complex, Float, Result};
use serde_json::{Value, json};
use std::io::{BufRead, Write};
use std::sync::{Arc, Mutex};

#[derive(rustradio_macros::Block)]
#[rustradio(new)]
struct PktSink {
    #[rustradio(in)]
    src: NCReadStream<Vec<u8>>,
    store: Arc<Mutex<Vec<Vec<u8>>>>,
}
impl Block for PktSink {
    fn work(&mut self) -> Result<BlockRet> {
        match self.src.pop() {
            None => Ok(BlockRet::WaitForStream(&self.src, 1)),
            Some((p, _)) => {
                self.store.lock().unwrap().push(p);
                Ok(BlockRet::Again)
            }
        }
    }
}

fn crc16(data: &[u8]) -> u16 {
    let mut crc = 0xffffu16;
    for b in data {
        let mut x = *b;
        for _ in 0..8 {
            let bit = ((crc ^ x as u16) & 1) != 0;
            crc >>= 1;
            if bit {
                crc ^= 0x8408;
            }
            x >>= 1;
        }
    }
    !crc
}
/// preamble flags, then each frame followed by `gap` flags (>= 2), then a tail.
fn hdlc_bits(frames: &[Vec<u8>], preamble: usize, gap: usize) -> Vec<u8> {
    let flag = [0u8, 1, 1, 1, 1, 1, 1, 0];
    let mut bits = vec![];
    for _ in 0..preamble {
        bits.extend(flag);
    }
    for f in frames {
        let mut d = f.clone();
        let c = crc16(f);
        d.push((c & 0xff) as u8);
        d.push((c >> 8) as u8);
        let mut ones = 0;
        for b in d {
            for i in 0..8 {
                let bit = (b >> i) & 1;
                bits.push(bit);
                if bit == 1 {
                    ones += 1;
                    if ones == 5 {
                        bits.push(0);
                        ones = 0;
                    }
                } else {
                    ones = 0;
                }
            }
        }
        for _ in 0..gap {
            bits.extend(flag);
        }
    }
    for _ in 0..6 {
        bits.extend(flag);
    }
    bits
}
fn nrzi(bits: &[u8]) -> Vec<u8> {
    let mut cur = 0u8;
    bits.iter()
        .map(|b| {
            if *b == 0 {
                cur ^= 1;
            }
            cur
        })
        .collect()
}
fn scramble(bits: &[u8]) -> Vec<u8> {
    let mut out: Vec<u8> = vec![];
    for (n, b) in bits.iter().enumerate() {
        let a = if n >= 12 { out[n - 12] } else { 0 };
        let c = if n >= 17 { out[n - 17] } else { 0 };
        out.push(b ^ a ^ c);
    }
    out
}
/// Continuous-phase Bell-202 AFSK.
fn afsk(levels: &[u8], samp_rate: f64, baud: f64, phase0: f64, toff: f64) -> Vec<Float> {
    let n = ((levels.len() as f64) * samp_rate / baud) as usize;
    let mut ph = phase0;
    let mut out = Vec::with_capacity(n + 4000);
    out.resize(1000, 0.0);
    for i in 0..n {
        let t = (i as f64 + toff) / samp_rate;
        let sym = ((t * baud) as usize).min(levels.len() - 1);
        let f = if levels[sym] == 1 { 1200.0 } else { 2200.0 };
        ph += 2.0 * std::f64::consts::PI * f / samp_rate;
        out.push(ph.sin() as Float);
    }
    out.resize(out.len() + 12000, 0.0);
    out
}
/// 2-FSK at +-dev Hz as complex baseband.
fn fsk_iq(levels: &[u8], samp_rate: f64, baud: f64, dev: f64, phase0: f64, toff: f64, tail: usize) -> Vec<Complex> {
    let n = ((levels.len() as f64) * samp_rate / baud) as usize;
    let mut ph = phase0;
    let mut out = vec![Complex::new(0.0, 0.0); 2000];
    for i in 0..n {
        let t = (i as f64 + toff) / samp_rate;
        let sym = ((t * baud) as usize).min(levels.len() - 1);
        let f = if levels[sym] == 1 { dev } else { -dev };
        ph += 2.0 * std::f64::consts::PI * f / samp_rate;
        out.push(Complex::new(ph.cos() as Float, ph.sin() as Float));
    }
    out.extend(vec![Complex::new(0.0, 0.0); tail]);
    out
}

/// examples/ax25-1200-rx.rs with its default options.
fn chain1200(g: &mut dyn GraphRunner, audio: Vec<Float>, samp_rate: Float) -> Arc<Mutex<Vec<Vec<u8>>>> {
    let (src, prev) = VectorSource::new(audio);
    g.add(Box::new(src));
    let (b, prev) = Hilbert::new(prev, 65, &WindowType::Hamming);
    g.add(Box::new(b));
    let (b, prev) = QuadratureDemod::new(prev, 1.0);
    g.add(Box::new(b));
    let taps = rustradio::fir::low_pass(samp_rate, 1100.0, 100.0, &WindowType::Hamming);
    let (b, prev) = FftFilterFloat::new(prev, &taps);
    g.add(Box::new(b));
    let center = 1200.0 + (2200.0 - 1200.0) / 2.0;
    let (b, prev) = add_const(prev, -center * 2.0 * std::f32::consts::PI / samp_rate);
    g.add(Box::new(b));
    let clock_filter = rustradio::iir_filter::IirFilter::new(&[0.5 as Float, 0.5]);
    let (b, prev) = rustradio::symbol_sync::SymbolSync::new(
        prev,
        samp_rate / 1200.0,
        0.5,
        Box::new(rustradio::symbol_sync::TedZeroCrossing::new()),
        Box::new(clock_filter),
    );
    g.add(Box::new(b));
    let (b, prev) = BinarySlicer::new(prev);
    g.add(Box::new(b));
    let (b, prev) = NrziDecode::new(prev);
    g.add(Box::new(b));
    let (b, prev) = HdlcDeframer::new(prev, 10, 1500);
    g.add(Box::new(b));
    let store = Arc::new(Mutex::new(vec![]));
    g.add(Box::new(PktSink::new(prev, store.clone())));
    store
}
/// examples/ax25-9600-rx.rs, I/Q input path, ZeroCrossing as clock recovery.
fn chain9600(g: &mut dyn GraphRunner, iq: Vec<Complex>, samp_rate: Float) -> Arc<Mutex<Vec<Vec<u8>>>> {
    let (src, prev) = VectorSource::new(iq);
    g.add(Box::new(src));
    let taps = rustradio::fir::low_pass_complex(samp_rate, 12_500.0, 100.0, &WindowType::Hamming);
    let (b, prev) = FftFilter::new(prev, &taps);
    g.add(Box::new(b));
    let (b, prev) = RationalResampler::new(prev, 50_000, samp_rate as usize).unwrap();
    g.add(Box::new(b));
    let (b, prev) = QuadratureDemod::new(prev, 1.0);
    g.add(Box::new(b));
    let (b, prev) = ZeroCrossing::new(prev, 50_000.0 / 9600.0, 0.1);
    g.add(Box::new(b));
    let (b, prev) = BinarySlicer::new(prev);
    g.add(Box::new(b));
    let (b, prev) = NrziDecode::new(prev);
    g.add(Box::new(b));
    let (b, prev) = Descrambler::new(prev, 0x21, 0, 16);
    g.add(Box::new(b));
    let (b, prev) = HdlcDeframer::new(prev, 10, 1500);
    g.add(Box::new(b));
    let store = Arc::new(Mutex::new(vec![]));
    g.add(Box::new(PktSink::new(prev, store.clone())));
    store
}

fn payload(rng: &mut Rng, class: &str, len: usize) -> Vec<u8> {
    (0..len)
        .map(|i| match class {
            "stuffing" => [0xffu8, 0x7e, 0x3f, 0xff, 0xff, 0x7d][(i + rng.below(2)) % 6],
            "ones" => 0xff,
            "zeros" => 0x00,
            _ => rng.next() as u8,
        })
        .collect()
}

/// ax25-run --scenarios FILE --out FILE
pub fn cmd_run(args: &[String]) -> i32 {
    quiet_panics();
    let f = std::io::BufReader::new(std::fs::File::open(arg_val(args, "--scenarios").expect("--scenarios")).expect("open"));
    let mut o = std::io::BufWriter::new(std::fs::File::create(arg_val(args, "--out").expect("--out")).expect("create"));
    let mut n = 0;
    for line in f.lines() {
        let sc: Value = serde_json::from_str(&line.unwrap()).expect("json");
        let mut rng = Rng::new(sc["seed"].as_u64().unwrap_or(1));
        let frames: Vec<Vec<u8>> = sc["frames"]
            .as_array()
            .unwrap()
            .iter()
            .map(|f| payload(&mut rng, f["class"].as_str().unwrap_or("random"), f["len"].as_u64().unwrap() as usize))
            .collect();
        let rate = sc["rate"].as_f64().unwrap();
        let preamble = sc["preamble"].as_u64().unwrap_or(40) as usize;
        let gap = sc["gap"].as_u64().unwrap_or(3) as usize;
        let phase = sc["phase"].as_f64().unwrap_or(0.3);
        let toff = sc["toff"].as_f64().unwrap_or(0.37);
        let mt = sc["runner"] == "mtgraph";
        if let Some(sz) = sc["stream_bytes"].as_u64() {
            rustradio::verif::set_stream_size(sz as usize);
        } else {
            rustradio::verif::set_stream_size(0);
        }
        let bits = hdlc_bits(&frames, preamble, gap);
        writeln!(o, "{}", json!({"ev": "scenario", "chain": sc["chain"], "rate": rate, "runner": sc["runner"], "nframes": frames.len(),
            "preamble": preamble, "gap": gap, "id": sc["id"]})).unwrap();
        for (k, f) in frames.iter().enumerate() {
            writeln!(o, "{}", json!({"ev": "tx", "id": k + 1, "data": f})).unwrap();
        }
        // The run happens in its own thread under a wall-clock watchdog: a receive chain that is still
        // running after `wall_s` seconds (the longest scenarios take a few seconds) is reported as hung.
        let (txc, rxc) = std::sync::mpsc::channel();
        let (sc2, bits2) = (sc.clone(), bits.clone());
        std::thread::spawn(move || {
            let sc = sc2;
            let bits = bits2;
            let res = catch(|| -> std::result::Result<Vec<Vec<u8>>, String> {
                let mut g: Box<dyn GraphRunner> = if mt { Box::new(MTGraph::new()) } else { Box::new(Graph::new()) };
                let store = if sc["chain"] == "1200" {
                    let audio = afsk(&nrzi(&bits), rate, 1200.0, phase, toff);
                    chain1200(g.as_mut(), audio, rate as Float)
                } else {
                    let iq = fsk_iq(&scramble(&nrzi(&bits)), rate, 9600.0, 3000.0, phase, toff, sc["tail"].as_u64().unwrap_or(40000) as usize);
                    chain9600(g.as_mut(), iq, rate as Float)
                };
                g.run().map_err(|e| format!("{e}"))?;
                let got = store.lock().unwrap().clone();
                Ok(got)
            });
            let _ = txc.send(res);
        });
        let res = match rxc.recv_timeout(std::time::Duration::from_secs(sc["wall_s"].as_u64().unwrap_or(240))) {
            Ok(r) => r,
            Err(_) => {
                writeln!(o, "{}", json!({"ev": "done", "outcome": "hung", "msg": "the receive chain did not finish within the watchdog time"})).unwrap();
                o.flush().unwrap();
                println!("{}", json!({"scenarios": n + 1, "hung": true}));
                // the stuck thread cannot be stopped: end the process, the remaining scenarios of this batch are not run
                std::process::exit(0);
            }
        };
        match res {
            Ok(Ok(got)) => {
                for p in got {
                    writeln!(o, "{}", json!({"ev": "rx", "data": p})).unwrap();
                }
                writeln!(o, "{}", json!({"ev": "done", "outcome": "ok"})).unwrap();
            }
            Ok(Err(e)) => writeln!(o, "{}", json!({"ev": "done", "outcome": "err", "msg": e})).unwrap(),
            Err(p) => writeln!(o, "{}", json!({"ev": "done", "outcome": "panic", "msg": p})).unwrap(),
        }
        n += 1;
    }
    rustradio::verif::set_stream_size(0);
    o.flush().unwrap();
    println!("{}", json!({"scenarios": n}));
    0
}
