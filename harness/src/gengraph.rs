//! C05/C06: generated graphs (chains, tee/merge diamonds, rate changers,
//! packet stages) built from a JSON description, run by Graph, by MTGraph on
//! OS threads, or by MTGraph under the controlled scheduler with a seeded
//! random / sticky / timeout-eager schedule. Only the result is logged: the
//! content of every sink, the outcome of run() and whether all threads exited;
//! specs/GraphSem_Trace.tla compares it with the denotation of the graph.
use crate::common::*;
use crate::graphs::Big;
use rustradio::block::{Block, BlockRet};
use rustradio::blocks::*;
use rustradio::graph::{Graph, GraphRunner};
use rustradio::mtgraph::MTGraph;
use rustradio::stream::{NCReadStream, ReadStream};
use rustradio::verif::{self, Grant};
use rustradio::Result;
use serde_json::{Value, json};
use std::io::{BufRead, Write};
use std::sync::{Arc, Mutex};

#[derive(rustradio_macros::Block)]
#[rustradio(new)]
struct PktSink {
    #[rustradio(in)]
    src: NCReadStream<Vec<u8>>,
    store: Arc<Mutex<Vec<Vec<u8>>>>,
}
impl Block for PktSink {
    fn work(&mut self) -> Result<BlockRet> {
        match self.src.pop() {
            None => Ok(BlockRet::WaitForStream(&self.src, 1)),
            Some((p, _)) => {
                self.store.lock().unwrap().push(p);
                Ok(BlockRet::Again)
            }
        }
    }
}

/// Pass-through that takes its time (widens timing windows in the runner around it).
#[derive(rustradio_macros::Block)]
#[rustradio(new)]
struct SlowPass {
    #[rustradio(in)]
    src: ReadStream<Big>,
    #[rustradio(out)]
    dst: rustradio::stream::WriteStream<Big>,
    ms: u64,
    /// at most this many samples per call (0: no limit): a reader that drains in small pieces
    max: usize,
}
impl Block for SlowPass {
    fn work(&mut self) -> Result<BlockRet> {
        if self.ms > 0 {
            std::thread::sleep(std::time::Duration::from_millis(self.ms));
        }
        let (i, _) = self.src.read_buf()?;
        if i.is_empty() {
            return Ok(BlockRet::WaitForStream(&self.src, 1));
        }
        let mut o = self.dst.write_buf()?;
        if o.is_empty() {
            return Ok(BlockRet::WaitForStream(&self.dst, 1));
        }
        let n = i.len().min(o.len()).min(if self.max == 0 { usize::MAX } else { self.max });
        o.fill_from_slice(&i.slice()[..n]);
        o.produce(n, &[]);
        i.consume(n);
        Ok(BlockRet::Again)
    }
}

/// Float source that emits its data in the given chunk sizes, one chunk per work() call.
#[derive(rustradio_macros::Block)]
#[rustradio(new)]
struct ChunkSource<T: Copy> {
    #[rustradio(out)]
    dst: rustradio::stream::WriteStream<T>,
    data: Vec<T>,
    chunks: Vec<usize>,
    pos: usize,
    k: usize,
}
impl<T: Copy> Block for ChunkSource<T> {
    fn work(&mut self) -> Result<BlockRet> {
        if self.pos >= self.data.len() {
            return Ok(BlockRet::EOF);
        }
        let mut o = self.dst.write_buf()?;
        let want = self.chunks.get(self.k).copied().unwrap_or(usize::MAX).min(self.data.len() - self.pos).max(1);
        if o.len() < want {
            return Ok(BlockRet::WaitForStream(&self.dst, want));
        }
        o.fill_from_slice(&self.data[self.pos..self.pos + want]);
        o.produce(want, &[]);
        self.pos += want;
        self.k += 1;
        if self.pos >= self.data.len() {
            return Ok(BlockRet::EOF);
        }
        Ok(BlockRet::Again)
    }
}

/// Packet source: pushes the given packets, one per work() call, then EOF.
#[derive(rustradio_macros::Block)]
#[rustradio(new)]
struct PktSource {
    #[rustradio(out)]
    dst: rustradio::stream::NCWriteStream<Vec<u8>>,
    pkts: Vec<Vec<u8>>,
    k: usize,
}
impl Block for PktSource {
    fn work(&mut self) -> Result<BlockRet> {
        if self.k >= self.pkts.len() {
            return Ok(BlockRet::EOF);
        }
        self.dst.push(self.pkts[self.k].clone(), &[]);
        self.k += 1;
        if self.k >= self.pkts.len() {
            return Ok(BlockRet::EOF);
        }
        Ok(BlockRet::Again)
    }
}

enum Port {
    C(ReadStream<rustradio::Complex>),
    F(ReadStream<rustradio::Float>),
    U8(ReadStream<u8>),
    Big(ReadStream<Big>),
    Pkt(NCReadStream<Vec<u8>>),
}
enum SinkStore {
    C(rustradio::vector_sink::Hook<rustradio::Complex>),
    F(rustradio::vector_sink::Hook<rustradio::Float>),
    U8(rustradio::vector_sink::Hook<u8>),
    Big(rustradio::vector_sink::Hook<Big>),
    Pkt(Arc<Mutex<Vec<Vec<u8>>>>),
}
impl SinkStore {
    fn data(&self) -> Vec<i64> {
        match self {
            // floats: integer-valued up to rounding (FFT filter on integer data)
            // complex with real-valued data: the real part, if the imaginary part is (numerically) zero
            SinkStore::C(h) => h.data().samples().iter().map(|v| if v.re.is_finite() && (v.re - v.re.round()).abs() < 1e-3 && v.im.abs() < 1e-3 { v.re.round() as i64 } else { crate::bench::NONUM }).collect(),
            SinkStore::F(h) => h.data().samples().iter().map(|v| if v.is_finite() && (v - v.round()).abs() < 1e-3 { v.round() as i64 } else { crate::bench::NONUM }).collect(),
            SinkStore::U8(h) => h.data().samples().iter().map(|v| *v as i64).collect(),
            SinkStore::Big(h) => h.data().samples().iter().map(|v| v.val().map(|x| x as i64).unwrap_or(crate::bench::NONUM)).collect(),
            SinkStore::Pkt(s) => s.lock().unwrap().iter().flat_map(|p| std::iter::once(-1i64).chain(p.iter().map(|b| *b as i64))).collect(),
        }
    }
}

struct Built {
    blocks: Vec<Option<Box<dyn Block + Send>>>,
    sinks: Vec<(usize, SinkStore)>,
}

fn pu(n: &Value, k: &str, d: u64) -> u64 {
    n["p"][k].as_u64().unwrap_or(d)
}

fn build(desc: &Value) -> std::result::Result<Built, String> {
    let nodes = desc["nodes"].as_array().ok_or("nodes")?;
    let mut ports: Vec<Vec<Option<Port>>> = Vec::new();
    let mut blocks: Vec<Option<Box<dyn Block + Send>>> = Vec::new();
    let mut sinks = Vec::new();
    for (ix, n) in nodes.iter().enumerate() {
        let kind = n["kind"].as_str().ok_or("kind")?;
        let mut ins: Vec<Port> = Vec::new();
        for i in n["ins"].as_array().map(|a| a.to_vec()).unwrap_or_default() {
            let (ni, pi) = (i[0].as_u64().unwrap() as usize - 1, i[1].as_u64().unwrap() as usize - 1);
            ins.push(ports.get_mut(ni).and_then(|p| p.get_mut(pi)).and_then(|p| p.take()).ok_or(format!("node {}: input {ni}/{pi} not available", ix + 1))?);
        }
        let mut it = ins.into_iter();
        macro_rules! one {
            ($b:expr, $o:expr) => {{
                blocks.push(Some(Box::new($b)));
                ports.push(vec![Some($o)]);
            }};
        }
        match (kind, it.next(), it.next()) {
            ("src_u8", None, None) => {
                let data: Vec<u8> = n["p"]["data"].as_array().ok_or("data")?.iter().map(|v| v.as_u64().unwrap_or(0) as u8).collect();
                let (b, o) = VectorSource::new(data);
                one!(b, Port::U8(o))
            }
            ("src_f", None, None) => {
                let data: Vec<rustradio::Float> = n["p"]["data"].as_array().ok_or("data")?.iter().map(|v| v.as_i64().unwrap_or(0) as rustradio::Float).collect();
                let chunks: Vec<usize> = n["p"]["chunks"].as_array().map(|a| a.iter().map(|v| v.as_u64().unwrap_or(1) as usize).collect()).unwrap_or_default();
                let (b, o) = ChunkSource::new(data, chunks, 0, 0);
                one!(b, Port::F(o))
            }
            ("src_pkt", None, None) => {
                // packets given as [length, fill byte] pairs (long packets without long JSON)
                let pkts: Vec<Vec<u8>> = n["p"]["pkts"].as_array().ok_or("pkts")?.iter()
                    .map(|p| { let (l, b) = (p[0].as_u64().unwrap_or(0) as usize, p[1].as_u64().unwrap_or(0) as u8);
                               (0..l).map(|i| b.wrapping_add((i % 7) as u8)).collect() }).collect();
                let (b, o) = PktSource::new(pkts, 0);
                one!(b, Port::Pkt(o))
            }
            ("src_c", None, None) => {
                let data: Vec<rustradio::Complex> = n["p"]["data"].as_array().ok_or("data")?.iter().map(|v| rustradio::Complex::new(v.as_i64().unwrap_or(0) as rustradio::Float, 0.0)).collect();
                let chunks: Vec<usize> = n["p"]["chunks"].as_array().map(|a| a.iter().map(|v| v.as_u64().unwrap_or(1) as usize).collect()).unwrap_or_default();
                let (b, o) = ChunkSource::new(data, chunks, 0, 0);
                one!(b, Port::C(o))
            }
            ("fftfiltc", Some(Port::C(r)), None) => {
                let taps: Vec<rustradio::Complex> = n["p"]["taps"].as_array().ok_or("taps")?.iter().map(|v| rustradio::Complex::new(v.as_i64().unwrap_or(0) as rustradio::Float, 0.0)).collect();
                let (b, o) = FftFilter::new(r, &taps);
                one!(b, Port::C(o))
            }
            ("sink", Some(Port::C(r)), None) => {
                let s = VectorSink::new(r, 1 << 30);
                sinks.push((ix + 1, SinkStore::C(s.hook())));
                blocks.push(Some(Box::new(s)));
                ports.push(vec![]);
            }
            ("fftfiltf", Some(Port::F(r)), None) => {
                let taps: Vec<rustradio::Float> = n["p"]["taps"].as_array().ok_or("taps")?.iter().map(|v| v.as_i64().unwrap_or(0) as rustradio::Float).collect();
                let (b, o) = FftFilterFloat::new(r, &taps);
                one!(b, Port::F(o))
            }
            ("firf", Some(Port::F(r)), None) => {
                let taps: Vec<rustradio::Float> = n["p"]["taps"].as_array().ok_or("taps")?.iter().map(|v| v.as_i64().unwrap_or(0) as rustradio::Float).collect();
                let (b, o) = FirFilterBuilder::new(&taps).deci(pu(n, "deci", 1) as usize).build(r);
                one!(b, Port::F(o))
            }
            ("sink", Some(Port::F(r)), None) => {
                let s = VectorSink::new(r, 1 << 30);
                sinks.push((ix + 1, SinkStore::F(s.hook())));
                blocks.push(Some(Box::new(s)));
                ports.push(vec![]);
            }
            ("src_big", None, None) => {
                let data: Vec<Big> = n["p"]["data"].as_array().ok_or("data")?.iter().map(|v| Big::of(v.as_u64().unwrap_or(0))).collect();
                let (b, o) = VectorSource::new(data);
                one!(b, Port::Big(o))
            }
            ("slow", Some(Port::Big(r)), None) => {
                let (b, o) = SlowPass::new(r, pu(n, "ms", 3), pu(n, "max", 0) as usize);
                one!(b, Port::Big(o))
            }
            ("addconst", Some(Port::Big(r)), None) => {
                let (b, o) = AddConst::new(r, Big::of(pu(n, "val", 1000)));
                one!(b, Port::Big(o))
            }
            ("add", Some(Port::Big(r1)), Some(Port::Big(r2))) => {
                let (b, o) = Add::new(r1, r2);
                one!(b, Port::Big(o))
            }
            ("tee", Some(Port::Big(r)), None) => {
                let (b, o1, o2) = Tee::new(r);
                blocks.push(Some(Box::new(b)));
                ports.push(vec![Some(Port::Big(o1)), Some(Port::Big(o2))]);
            }
            ("tee", Some(Port::U8(r)), None) => {
                let (b, o1, o2) = Tee::new(r);
                blocks.push(Some(Box::new(b)));
                ports.push(vec![Some(Port::U8(o1)), Some(Port::U8(o2))]);
            }
            ("resample", Some(Port::Big(r)), None) => {
                let (b, o) = RationalResampler::new(r, pu(n, "interp", 1) as usize, pu(n, "deci", 1) as usize).map_err(|e| format!("{e}"))?;
                one!(b, Port::Big(o))
            }
            ("resample", Some(Port::U8(r)), None) => {
                let (b, o) = RationalResampler::new(r, pu(n, "interp", 1) as usize, pu(n, "deci", 1) as usize).map_err(|e| format!("{e}"))?;
                one!(b, Port::U8(o))
            }
            ("delay", Some(Port::Big(r)), None) => {
                let (b, o) = Delay::new(r, pu(n, "delay", 0) as usize);
                one!(b, Port::Big(o))
            }
            ("delay", Some(Port::U8(r)), None) => {
                let (b, o) = Delay::new(r, pu(n, "delay", 0) as usize);
                one!(b, Port::U8(o))
            }
            ("skip", Some(Port::Big(r)), None) => {
                let (b, o) = Skip::new(r, pu(n, "skip", 0) as usize);
                one!(b, Port::Big(o))
            }
            ("skip", Some(Port::U8(r)), None) => {
                let (b, o) = Skip::new(r, pu(n, "skip", 0) as usize);
                one!(b, Port::U8(o))
            }
            ("xorconst", Some(Port::U8(r)), None) => {
                let (b, o) = XorConst::new(r, pu(n, "val", 1) as u8);
                one!(b, Port::U8(o))
            }
            ("xor", Some(Port::U8(r1)), Some(Port::U8(r2))) => {
                let (b, o) = Xor::new(r1, r2);
                one!(b, Port::U8(o))
            }
            ("nrzi", Some(Port::U8(r)), None) => {
                let (b, o) = NrziDecode::new(r);
                one!(b, Port::U8(o))
            }
            ("descramble", Some(Port::U8(r)), None) => {
                let (b, o) = Descrambler::new(r, pu(n, "mask", 0x21), pu(n, "seed", 0), pu(n, "len", 16) as u8);
                one!(b, Port::U8(o))
            }
            ("hdlc", Some(Port::U8(r)), None) => {
                let (b, o) = HdlcDeframer::new(r, pu(n, "min", 1) as usize, pu(n, "max", 100) as usize);
                one!(b, Port::Pkt(o))
            }
            ("v2s", Some(Port::Pkt(r)), None) => {
                let (b, o) = VecToStream::new(r);
                one!(b, Port::U8(o))
            }
            ("sink", Some(Port::U8(r)), None) => {
                let s = VectorSink::new(r, 1 << 30);
                sinks.push((ix + 1, SinkStore::U8(s.hook())));
                blocks.push(Some(Box::new(s)));
                ports.push(vec![]);
            }
            ("sink", Some(Port::Big(r)), None) => {
                let s = VectorSink::new(r, 1 << 30);
                sinks.push((ix + 1, SinkStore::Big(s.hook())));
                blocks.push(Some(Box::new(s)));
                ports.push(vec![]);
            }
            ("sink", Some(Port::Pkt(r)), None) => {
                let store = Arc::new(Mutex::new(vec![]));
                sinks.push((ix + 1, SinkStore::Pkt(store.clone())));
                blocks.push(Some(Box::new(PktSink::new(r, store))));
                ports.push(vec![]);
            }
            (k, _, _) => return Err(format!("node {}: unsupported kind/inputs {k}", ix + 1)),
        }
    }
    Ok(Built { blocks, sinks })
}

/// Drive all registered threads to completion with a seeded schedule.
/// Returns (steps, how it ended).
pub fn drive(ctl: &verif::Controller, seed: u64, budget: usize) -> (usize, &'static str) {
    let mut rng = Rng::new(seed);
    let stick = rng.below(5); // 0: switch always .. 4: run a thread as long as it can
    let timeout_bias = rng.below(3); // 0: timeouts rare, 2: timeouts eager
    // occasionally starve one thread until nothing else can run (priority schedule)
    let starve: Option<usize> = if rng.below(3) == 0 { Some(rng.below(8)) } else { None };
    let mut last: Option<usize> = None;
    let mut steps = 0usize;
    loop {
        let v = ctl.settle(1);
        if v.is_empty() {
            return (steps, "done");
        }
        let mut cands: Vec<(usize, Grant)> = Vec::new();
        for (i, tv) in v.iter().enumerate() {
            for gnt in &tv.enabled {
                if *gnt == Grant::Timeout && timeout_bias == 0 && v.len() > 1 && rng.below(8) != 0 {
                    continue;
                }
                if let Some(s) = starve {
                    if v.len() > 1 && i == s % v.len() && rng.below(16) != 0 {
                        continue;
                    }
                }
                cands.push((i, gnt.clone()));
            }
        }
        if cands.is_empty() {
            for (i, tv) in v.iter().enumerate() {
                for gnt in &tv.enabled {
                    cands.push((i, gnt.clone()));
                }
            }
        }
        if cands.is_empty() {
            return (steps, "deadlock");
        }
        if timeout_bias == 2 {
            // eager: prefer a timeout when one is on offer
            let t: Vec<usize> = cands.iter().enumerate().filter(|(_, c)| c.1 == Grant::Timeout).map(|(i, _)| i).collect();
            if !t.is_empty() && rng.below(2) == 0 {
                let p = t[rng.below(t.len())];
                let (vi, g) = cands[p].clone();
                last = Some(v[vi].tid);
                ctl.grant(v[vi].tid, g);
                steps += 1;
                continue;
            }
        }
        let same: Vec<usize> = cands.iter().enumerate().filter(|(_, c)| Some(v[c.0].tid) == last).map(|(i, _)| i).collect();
        let pick = if !same.is_empty() && rng.below(5) < stick { same[rng.below(same.len())] } else { rng.below(cands.len()) };
        let (vi, gnt) = cands[pick].clone();
        last = Some(v[vi].tid);
        ctl.grant(v[vi].tid, gnt);
        steps += 1;
        if steps > budget {
            return (steps, "budget");
        }
    }
}

/// Systematic bounded schedule (PCT style): every thread has a fixed
/// priority (`prio[k]` for the k-th thread to register; higher runs first);
/// the running thread keeps going while it can, when it blocks or exits the
/// runnable thread of highest priority takes over, and a timeout is granted
/// only when nothing else can run. On top of that the plan forces at most one
/// timeout (at grant number `timeout_at`, to the `timeout_who`-th thread that
/// is waiting with a timeout on offer) and one preemption (at grant number
/// `preempt_at` the running thread drops to the lowest priority, so every
/// other thread runs as far as it can before it continues). Enumerating the
/// plan parameters explores every such schedule. With `vol` > 0 a waiting
/// thread of higher priority lets up to `vol` of its waits time out instead of
/// yielding to lower-priority threads.
pub fn drive_plan(ctl: &verif::Controller, plan: &Value, budget: usize) -> (usize, &'static str) {
    let preempt_at = plan["preempt_at"].as_i64().unwrap_or(-1);
    let timeout_at = plan["timeout_at"].as_i64().unwrap_or(-1);
    let timeout_who = plan["timeout_who"].as_u64().unwrap_or(0) as usize;
    // every thread may let `vol` of its waits time out although lower-priority threads could run
    let vol = plan["vol"].as_u64().unwrap_or(0) as usize;
    let mut vol_used: std::collections::HashMap<usize, usize> = Default::default();
    let mut prio: std::collections::HashMap<usize, i64> = Default::default();
    let mut lowest = -1i64;
    let mut last: Option<usize> = None;
    let mut steps = 0usize;
    let mut rr = 0usize;
    loop {
        let v = ctl.settle(1);
        if v.is_empty() {
            return (steps, "done");
        }
        for t in &v {
            if !prio.contains_key(&t.tid) {
                let k = prio.len();
                prio.insert(t.tid, plan["prio"][k].as_i64().unwrap_or(100 - k as i64));
            }
        }
        let n = v.len();
        let runnable = |i: usize| v[i].enabled.iter().find(|g| **g != Grant::Timeout).cloned();
        let cur = last.and_then(|t| v.iter().position(|x| x.tid == t));
        let mut choice: Option<(usize, Grant)> = None;
        if steps as i64 == timeout_at {
            let waiting: Vec<usize> = (0..n).filter(|i| v[*i].enabled.contains(&Grant::Timeout)).collect();
            if !waiting.is_empty() {
                choice = Some((waiting[timeout_who % waiting.len()], Grant::Timeout));
            }
        }
        if choice.is_none() && steps as i64 == preempt_at {
            if let Some(c) = cur {
                prio.insert(v[c].tid, lowest);
                lowest -= 1;
                last = None;
            }
        }
        let cur = last.and_then(|t| v.iter().position(|x| x.tid == t));
        if choice.is_none() {
            if let Some(c) = cur {
                if let Some(g) = runnable(c) {
                    choice = Some((c, g));
                }
            }
        }
        if choice.is_none() {
            let can_vol = |i: usize| v[i].enabled.contains(&Grant::Timeout) && vol_used.get(&v[i].tid).copied().unwrap_or(0) < vol;
            let any_runnable = (0..n).any(|i| runnable(i).is_some());
            let best = (0..n).filter(|i| runnable(*i).is_some() || (any_runnable && can_vol(*i))).max_by_key(|i| prio[&v[*i].tid]);
            if let Some(i) = best {
                match runnable(i) {
                    Some(g) => choice = Some((i, g)),
                    None => {
                        *vol_used.entry(v[i].tid).or_insert(0) += 1;
                        choice = Some((i, Grant::Timeout));
                    }
                }
            }
        }
        if choice.is_none() {
            // nothing can run: a waiting thread times out (round robin)
            for k in 0..n {
                let i = (rr + 1 + k) % n;
                if v[i].enabled.contains(&Grant::Timeout) {
                    choice = Some((i, Grant::Timeout));
                    rr = i;
                    break;
                }
            }
        }
        let Some((i, g)) = choice else {
            return (steps, "deadlock");
        };
        if plan["debug"].as_bool().unwrap_or(false) {
            eprintln!("step {steps}: {} tid {} at {:?} <- {:?}   [{}]", v[i].name, v[i].tid, v[i].point, g,
                v.iter().map(|t| format!("{}:{}{}", t.name, t.point.kind(), if t.enabled.is_empty() { "-" } else { "+" })).collect::<Vec<_>>().join(" "));
        }
        last = Some(v[i].tid);
        ctl.grant(v[i].tid, g);
        steps += 1;
        if steps > budget {
            return (steps, "budget");
        }
    }
}

fn run_one(desc: &Value, out: &mut impl Write) {
    let sz = desc["stream_bytes"].as_u64().unwrap_or(0) as usize;
    verif::set_thread_stream_size(sz);
    let runner = desc["runner"].as_str().unwrap_or("graph").to_string();
    writeln!(out, "{}", json!({"ev": "graph", "id": desc["id"], "nodes": desc["nodes"], "runner": runner, "order": desc["order"],
        "stream_bytes": sz, "seed": desc["seed"].as_u64().unwrap_or(0),
        "plan": if desc["plan"].is_object() { desc["plan"].clone() } else { json!({"prio": []}) }})).unwrap();
    let built = match catch(|| build(desc)) {
        Ok(Ok(b)) => b,
        Ok(Err(e)) => {
            writeln!(out, "{}", json!({"ev": "done", "outcome": "build_error", "msg": e, "exited": true, "end": "-", "steps": 0})).unwrap();
            return;
        }
        Err(p) => {
            writeln!(out, "{}", json!({"ev": "done", "outcome": "build_panic", "msg": p, "exited": true, "end": "-", "steps": 0})).unwrap();
            return;
        }
    };
    let Built { mut blocks, sinks } = built;
    let order: Vec<usize> = desc["order"].as_array().map(|a| a.iter().map(|k| k.as_u64().unwrap() as usize).collect()).unwrap_or_else(|| (1..=blocks.len()).collect());
    let (outcome, msg, end, steps, exited);
    match runner.as_str() {
        "graph" | "mt" => {
            // Run on OS threads under a wall-clock watchdog: a run that is still going after
            // `wall_s` seconds (tiny graphs take milliseconds) is reported as not terminating
            // and its threads are left behind.
            // "bg": another, never-ending Graph runs in the same process meanwhile (process-wide
            // state of the runners must not leak from one graph into another)
            let bg = if desc["bg"].as_bool().unwrap_or(false) {
                let (ctx_tx, ctx_rx) = std::sync::mpsc::channel();
                let h = std::thread::spawn(move || {
                    let mut g = Graph::new();
                    let (src, o) = ConstantSource::new(0u8);
                    g.add(Box::new(src));
                    g.add(Box::new(NullSink::new(o)));
                    let _ = ctx_tx.send(g.cancel_token());
                    let _ = g.run();
                });
                ctx_rx.recv().ok().map(|tok| (tok, h))
            } else {
                None
            };
            let (tx, rx) = std::sync::mpsc::channel();
            let is_st = runner == "graph";
            let order2 = order.clone();
            let mut blocks2 = std::mem::take(&mut blocks);
            std::thread::spawn(move || {
                // the graph is built in the thread that runs it (Graph is not Send)
                let mut g: Box<dyn GraphRunner> = if is_st { Box::new(Graph::new()) } else { Box::new(MTGraph::new()) };
                for b in &order2 {
                    g.add(blocks2[b - 1].take().unwrap());
                }
                let r = catch(|| g.run());
                let _ = tx.send(match r {
                    Ok(Ok(())) => ("ok", String::new()),
                    Ok(Err(e)) => ("err", format!("{e}")),
                    Err(p) => ("panic", p),
                });
            });
            match rx.recv_timeout(std::time::Duration::from_secs(desc["wall_s"].as_u64().unwrap_or(20))) {
                Ok((o, m)) => {
                    (outcome, msg) = (o, m);
                    (end, steps, exited) = ("done", 0, true);
                }
                Err(_) => {
                    (outcome, msg) = ("hung", "run() did not return within the watchdog time".to_string());
                    (end, steps, exited) = ("no_termination", 0, false);
                }
            }
            if let Some((tok, h)) = bg {
                tok.cancel();
                let _ = h.join();
            }
        }
        _ => {
            let mut g = MTGraph::new();
            for b in &order {
                g.add(blocks[b - 1].take().unwrap());
            }
            let ctl = verif::install_controller();
            verif::trace_start();
            let res: Arc<Mutex<(&'static str, String)>> = Arc::new(Mutex::new(("unfinished", String::new())));
            let res2 = res.clone();
            let main = std::thread::spawn(move || {
                verif::thread_start("main");
                let r = catch(|| g.run());
                *res2.lock().unwrap() = match r {
                    Ok(Ok(())) => ("ok", String::new()),
                    Ok(Err(e)) => ("err", format!("{e}")),
                    Err(p) => ("panic", p),
                };
            });
            while ctl.registered() < 1 {
                std::thread::yield_now();
            }
            let budget = desc["budget"].as_u64().unwrap_or(400_000) as usize;
            let (s, e) = if runner == "mtx" { drive_plan(&ctl, &desc["plan"], budget) } else { drive(&ctl, desc["seed"].as_u64().unwrap_or(1), budget) };
            (end, steps) = (e, s);
            if e == "done" {
                let _ = main.join();
                exited = true;
            } else {
                // threads are parked for ever: leave them (the process ends with the batch)
                exited = false;
            }
            verif::remove_controller();
            let _ = verif::trace_take();
            let r = res.lock().unwrap().clone();
            (outcome, msg) = r;
        }
    }
    if exited {
        for (node, s) in &sinks {
            writeln!(out, "{}", json!({"ev": "sink", "node": node, "data": s.data()})).unwrap();
        }
    }
    writeln!(out, "{}", json!({"ev": "done", "outcome": outcome, "msg": msg, "exited": exited, "end": end, "steps": steps})).unwrap();
}

/// gengraph-run --graphs FILE --out FILE
pub fn cmd_run(args: &[String]) -> i32 {
    quiet_panics();
    let f = std::io::BufReader::new(std::fs::File::open(arg_val(args, "--graphs").expect("--graphs")).expect("open"));
    let mut o = std::io::BufWriter::new(std::fs::File::create(arg_val(args, "--out").expect("--out")).expect("create"));
    let mut n = 0;
    for line in f.lines() {
        let line = line.unwrap();
        if line.trim().is_empty() {
            continue;
        }
        let desc: Value = serde_json::from_str(&line).expect("json");
        run_one(&desc, &mut o);
        o.flush().unwrap();
        n += 1;
    }
    verif::set_thread_stream_size(0);
    println!("{}", json!({"graphs": n}));
    0
}
