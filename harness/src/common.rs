//! Shared helpers for the harness.
use std::panic::{AssertUnwindSafe, catch_unwind};

/// Small deterministic RNG (xorshift64*).
pub struct Rng(pub u64);
impl Rng {
    pub fn new(seed: u64) -> Self {
        Rng(seed.wrapping_mul(0x9E3779B97F4A7C15) | 1)
    }
    pub fn next(&mut self) -> u64 {
        self.0 ^= self.0 >> 12;
        self.0 ^= self.0 << 25;
        self.0 ^= self.0 >> 27;
        self.0.wrapping_mul(0x2545F4914F6CDD1D)
    }
    /// Uniform in 0..n (n > 0).
    pub fn below(&mut self, n: usize) -> usize {
        (self.next() % n as u64) as usize
    }
    pub fn chance(&mut self, num: usize, den: usize) -> bool {
        self.below(den) < num
    }
    pub fn pick<'a, T>(&mut self, v: &'a [T]) -> &'a T {
        &v[self.below(v.len())]
    }
}

/// Run `f`, converting a panic into Err(message). Panics are data.
pub fn catch<R>(f: impl FnOnce() -> R) -> Result<R, String> {
    match catch_unwind(AssertUnwindSafe(f)) {
        Ok(r) => Ok(r),
        Err(e) => Err(if let Some(s) = e.downcast_ref::<&str>() {
            s.to_string()
        } else if let Some(s) = e.downcast_ref::<String>() {
            s.clone()
        } else {
            "panic".to_string()
        }),
    }
}

/// Silence the default panic message (panics are caught and logged).
pub fn quiet_panics() {
    std::panic::set_hook(Box::new(|_| {}));
}

/// A stream element that carries an abstract sample id in every lane, so that
/// torn / stale / misplaced samples are visible for any element size.
pub trait Sample: Copy + Send + Sync + 'static {
    fn from_id(id: u64) -> Self;
    /// The id, or None if the lanes disagree (torn sample).
    fn id(&self) -> Option<u64>;
}
macro_rules! sample_int {
    ($t:ty) => {
        impl Sample for $t {
            fn from_id(id: u64) -> Self {
                id as $t
            }
            fn id(&self) -> Option<u64> {
                Some(*self as u64)
            }
        }
    };
}
sample_int!(u8);
sample_int!(u16);
sample_int!(u32);
sample_int!(u64);
sample_int!(u128);
impl<const N: usize> Sample for [u64; N] {
    fn from_id(id: u64) -> Self {
        let mut a = [0u64; N];
        for (j, x) in a.iter_mut().enumerate() {
            *x = id.wrapping_mul(1_000_003).wrapping_add(j as u64);
        }
        a
    }
    fn id(&self) -> Option<u64> {
        if N == 0 {
            return None;
        }
        if self[0] % 1_000_003 != 0 {
            return None;
        }
        let id = self[0] / 1_000_003;
        if *self == Self::from_id(id) { Some(id) } else { None }
    }
}
/// 3-byte element: does not divide a page.
#[derive(Clone, Copy, Debug, PartialEq)]
#[repr(C)]
pub struct B3(pub [u8; 3]);
impl Sample for B3 {
    fn from_id(id: u64) -> Self {
        B3([id as u8, (id >> 8) as u8, (id >> 16) as u8])
    }
    fn id(&self) -> Option<u64> {
        Some(self.0[0] as u64 | (self.0[1] as u64) << 8 | (self.0[2] as u64) << 16)
    }
}

pub fn arg_val(args: &[String], name: &str) -> Option<String> {
    args.iter()
        .position(|a| a == name)
        .and_then(|i| args.get(i + 1).cloned())
}
pub fn arg_usize(args: &[String], name: &str, default: usize) -> usize {
    arg_val(args, name)
        .map(|v| v.parse().expect("numeric argument"))
        .unwrap_or(default)
}
