//! C14 (byte formats) and C17 (file sink): codecs, read-segmentation of byte
//! sources, file round trips, open modes, crash points. Each run writes ndjson
//! events for validation by specs/ByteFormats_Trace.tla / FileSink_Trace.tla.
use crate::common::*;
use rustradio::block::{Block, BlockRet};
use rustradio::blocks::*;
use rustradio::file_sink::Mode;
use rustradio::stream::{ReadStream, new_stream};
use rustradio::{Complex, Float, Sample};
use serde_json::{Value, json};
use std::io::{BufRead, Read, Write};

fn limbs_u32(v: u32) -> Vec<i64> {
    vec![(v >> 16) as i64, (v & 0xffff) as i64]
}
fn u32_of(l: &[i64]) -> u32 {
    ((l[0] as u32) << 16) | (l[1] as u32)
}

/// codec --vals FILE --out FILE : serialise and parse back each value.
pub fn cmd_codec(args: &[String]) -> i32 {
    quiet_panics();
    let f = std::io::BufReader::new(std::fs::File::open(arg_val(args, "--vals").expect("--vals")).expect("open"));
    let mut o = std::io::BufWriter::new(std::fs::File::create(arg_val(args, "--out").expect("--out")).expect("create"));
    let mut n = 0;
    for line in f.lines() {
        let v: Value = serde_json::from_str(&line.unwrap()).expect("json");
        let l: Vec<i64> = v["limbs"].as_array().unwrap().iter().map(|x| x.as_i64().unwrap()).collect();
        let ty = v["type"].as_str().unwrap();
        let r = catch(|| -> (Vec<u8>, Vec<i64>) {
            match ty {
                "u8" => {
                    let x = l[0] as u8;
                    let b = x.serialize();
                    let y = u8::parse(&b).unwrap();
                    (b, vec![y as i64])
                }
                "u32" => {
                    let x = u32_of(&l);
                    let b = x.serialize();
                    let y = u32::parse(&b).unwrap();
                    (b, limbs_u32(y))
                }
                "i32" => {
                    let x = u32_of(&l) as i32;
                    let b = x.serialize();
                    let y = i32::parse(&b).unwrap();
                    (b, limbs_u32(y as u32))
                }
                "f32" => {
                    let x = Float::from_bits(u32_of(&l));
                    let b = x.serialize();
                    let y = Float::parse(&b).unwrap();
                    (b, limbs_u32(y.to_bits()))
                }
                _ => {
                    let x = Complex::new(Float::from_bits(u32_of(&l[0..2])), Float::from_bits(u32_of(&l[2..4])));
                    let b = x.serialize();
                    let y = Complex::parse(&b).unwrap();
                    let mut o = limbs_u32(y.re.to_bits());
                    o.extend(limbs_u32(y.im.to_bits()));
                    (b, o)
                }
            }
        });
        match r {
            Ok((b, back)) => writeln!(o, "{}", json!({"ev": "codec", "type": ty, "limbs": l, "bytes": b, "back": back, "panic": ""})).unwrap(),
            Err(p) => writeln!(o, "{}", json!({"ev": "codec", "type": ty, "limbs": l, "bytes": [], "back": [], "panic": p})).unwrap(),
        }
        n += 1;
    }
    o.flush().unwrap();
    println!("{}", json!({"events": n}));
    0
}

// ---------------------------------------------------------- reassembler

fn sample_bytes<T: Sample<Type = T> + Copy>(r: &ReadStream<T>) -> Vec<Vec<u8>> {
    sample_bytes_n(r, -1)
}

/// Take at most `max` samples out of the stream (-1: all there is).
fn sample_bytes_n<T: Sample<Type = T> + Copy>(r: &ReadStream<T>, max: i64) -> Vec<Vec<u8>> {
    let (w, _) = r.read_buf().unwrap();
    let n = if max < 0 { w.len() } else { w.len().min(max as usize) };
    let v: Vec<Vec<u8>> = w.slice()[..n].iter().map(|s| s.serialize()).collect();
    w.consume(n);
    v
}

fn reasm_file<T>(bytes: &[u8], pieces: &[usize]) -> (Vec<Vec<u8>>, Vec<String>, String)
where
    T: Sample<Type = T> + Copy + Default + std::fmt::Debug,
{
    // A FIFO: each read() returns what has been written so far (one piece).
    let dir = tempfile::tempdir().unwrap();
    let path = dir.path().join("fifo");
    let cpath = std::ffi::CString::new(path.to_str().unwrap()).unwrap();
    // SAFETY: plain libc call with a valid C string.
    assert_eq!(unsafe { libc::mkfifo(cpath.as_ptr(), 0o600) }, 0);
    // Open the write end non-blocking read+write first so that opening for read does not block.
    let mut wr = std::fs::OpenOptions::new().read(true).write(true).open(&path).unwrap();
    let (mut src, out) = FileSource::<T>::new(&path).unwrap();
    let mut got = Vec::new();
    let mut verdicts = Vec::new();
    let mut pos = 0;
    let mut panic = String::new();
    for p in pieces {
        wr.write_all(&bytes[pos..pos + p]).unwrap();
        wr.flush().unwrap();
        pos += p;
        // one work() call consumes this piece (it must not block: data is there)
        match catch(|| src.work().map(|r| format!("{r:?}"))) {
            Ok(Ok(v)) => verdicts.push(v),
            Ok(Err(e)) => {
                verdicts.push(format!("err:{e}"));
                break;
            }
            Err(pn) => {
                panic = pn;
                break;
            }
        }
        if panic.is_empty() {
            got.extend(sample_bytes(&out));
        }
    }
    drop(wr);
    (got, verdicts, panic)
}

fn reasm_tcp<T>(bytes: &[u8], pieces: &[usize], drains: &[i64]) -> (Vec<Vec<u8>>, Vec<String>, String)
where
    T: Sample<Type = T> + Copy + Default + std::fmt::Debug,
{
    let listener = std::net::TcpListener::bind("127.0.0.1:0").unwrap();
    let port = listener.local_addr().unwrap().port();
    let (mut src, out) = TcpSource::<T>::new("127.0.0.1", port).unwrap();
    let (mut conn, _) = listener.accept().unwrap();
    conn.set_nodelay(true).unwrap();
    let mut got = Vec::new();
    let mut verdicts = Vec::new();
    let mut pos = 0;
    let mut panic = String::new();
    for (k, p) in pieces.iter().enumerate() {
        conn.write_all(&bytes[pos..pos + p]).unwrap();
        conn.flush().unwrap();
        pos += p;
        // Loopback delivery is immediate in practice; give it a moment so that
        // the piece is there when work() reads. (The oracle does not depend on
        // it: any coalescing gives the same samples.)
        std::thread::sleep(std::time::Duration::from_micros(300));
        match catch(|| src.work().map(|r| format!("{r:?}"))) {
            Ok(Ok(v)) => verdicts.push(v),
            Ok(Err(e)) => {
                verdicts.push(format!("err:{e}"));
                break;
            }
            Err(pn) => {
                panic = pn;
                break;
            }
        }
        // the reader takes what the case says (default: everything), so that the output
        // stream can be left nearly full
        got.extend(sample_bytes_n(&out, drains.get(k).copied().unwrap_or(-1)));
    }
    if panic.is_empty() {
        drop(conn);
        // after the peer closed: whatever is still in flight, then EOF
        for _ in 0..20000 {
            match catch(|| src.work().map(|r| format!("{r:?}"))) {
                Ok(Ok(v)) => verdicts.push(v),
                Ok(Err(e)) => verdicts.push(format!("err:{e}")),
                Err(pn) => panic = pn,
            }
            if !panic.is_empty() {
                break;
            }
            got.extend(sample_bytes(&out));
            let last = verdicts.last().map(|s| s.as_str()).unwrap_or("");
            if last.contains("EOF") || last.starts_with("err") {
                break;
            }
        }
    }
    (got, verdicts, panic)
}

/// reasm --cases FILE --out FILE
pub fn cmd_reasm(args: &[String]) -> i32 {
    quiet_panics();
    rustradio::verif::set_thread_stream_size(4096);
    let f = std::io::BufReader::new(std::fs::File::open(arg_val(args, "--cases").expect("--cases")).expect("open"));
    let mut o = std::io::BufWriter::new(std::fs::File::create(arg_val(args, "--out").expect("--out")).expect("create"));
    let mut n = 0;
    let mut stuck = false;
    for line in f.lines() {
        let c: Value = serde_json::from_str(&line.unwrap()).expect("json");
        let bytes: Vec<u8> = c["bytes"].as_array().unwrap().iter().map(|x| x.as_u64().unwrap() as u8).collect();
        let pieces: Vec<usize> = c["pieces"].as_array().unwrap().iter().map(|x| x.as_u64().unwrap() as usize).collect();
        let src = c["src"].as_str().unwrap();
        let size = c["size"].as_u64().unwrap();
        let drains: Vec<i64> = c["drains"].as_array().map(|a| a.iter().map(|x| x.as_i64().unwrap_or(-1)).collect()).unwrap_or_default();
        // Each case runs in its own thread under a watchdog: a source that lost bytes can block
        // for ever in a read the harness expected to find data for. That is an outcome ("hung"),
        // not a harness failure; the stuck thread is left behind and the process exits at the end.
        let (tx, rx) = std::sync::mpsc::channel();
        {
            let (bytes, pieces, drains, src) = (bytes.clone(), pieces.clone(), drains.clone(), src.to_string());
            std::thread::spawn(move || {
                rustradio::verif::set_thread_stream_size(4096);
                let r = match (src.as_str(), size) {
                    ("file", 1) => reasm_file::<u8>(&bytes, &pieces),
                    ("file", 4) => reasm_file::<u32>(&bytes, &pieces),
                    ("file", _) => reasm_file::<Complex>(&bytes, &pieces),
                    ("tcp", 1) => reasm_tcp::<u8>(&bytes, &pieces, &drains),
                    ("tcp", 4) => reasm_tcp::<Float>(&bytes, &pieces, &drains),
                    _ => reasm_tcp::<Complex>(&bytes, &pieces, &drains),
                };
                let _ = tx.send(r);
            });
        }
        let (got, verdicts, panic) = match rx.recv_timeout(std::time::Duration::from_secs(30)) {
            Ok(r) => r,
            Err(_) => {
                stuck = true;
                (Vec::new(), Vec::new(), "hung: the case did not finish within 30 s (a read that blocks for ever)".to_string())
            }
        };
        writeln!(o, "{}", json!({"ev": "reasm", "src": src, "size": size, "bytes": bytes, "pieces": pieces,
            "out": got, "verdicts": verdicts, "panic": panic})).unwrap();
        n += 1;
    }
    o.flush().unwrap();
    println!("{}", json!({"events": n}));
    if stuck {
        std::process::exit(0);
    }
    0
}

// ------------------------------------------------------------ round trip

fn roundtrip<T>(vals: Vec<T>, lim: impl Fn(&T) -> Vec<i64>, chunk: usize) -> Value
where
    T: Sample<Type = T> + Copy + Default + std::fmt::Debug + PartialEq,
{
    roundtrip_sz(vals, lim, chunk, 4096)
}
/// `stream`: stream size in bytes (0 = the library default, so that a sink sees very many samples at once)
fn roundtrip_sz<T>(vals: Vec<T>, lim: impl Fn(&T) -> Vec<i64>, chunk: usize, stream: usize) -> Value
where
    T: Sample<Type = T> + Copy + Default + std::fmt::Debug + PartialEq,
{
    rustradio::verif::set_thread_stream_size(stream);
    let dir = tempfile::tempdir().unwrap();
    let path = dir.path().join("rt.bin");
    let (ws, rs) = new_stream::<T>();
    // Every other round trip overwrites an existing, longer file.
    let overwrite = (vals.len() + chunk) % 2 == 1;
    if overwrite {
        std::fs::write(&path, vec![0xA5u8; vals.len() * T::size() + 13]).unwrap();
    }
    let mut sink = FileSink::new(rs, &path, if overwrite { Mode::Overwrite } else { Mode::Create }).unwrap();
    let mut pos = 0;
    let mut guard = 0;
    while pos < vals.len() && guard < 100000 {
        guard += 1;
        let mut w = ws.write_buf().unwrap();
        let n = w.len().min(chunk).min(vals.len() - pos);
        w.slice()[..n].copy_from_slice(&vals[pos..pos + n]);
        w.produce(n, &[]);
        pos += n;
        let _ = sink.work();
    }
    let _ = sink.work();
    drop(sink);
    let file = std::fs::read(&path).unwrap();
    let (mut src, out) = FileSource::<T>::new(&path).unwrap();
    let mut back: Vec<T> = Vec::new();
    for _ in 0..100000 {
        let r = src.work();
        let (w, _) = out.read_buf().unwrap();
        back.extend_from_slice(w.slice());
        let n = w.len();
        w.consume(n);
        if matches!(r, Ok(BlockRet::EOF)) || r.is_err() {
            break;
        }
    }
    let small = vals.len() <= 64;
    let expect_file: Vec<u8> = vals.iter().flat_map(|v| v.serialize()).collect();
    json!({"ev": "roundtrip", "size": T::size(), "n": vals.len(), "file_len": file.len(), "back_len": back.len(),
        "file_equal": file == expect_file,
        "back_equal": back.len() == vals.len() && back.iter().zip(vals.iter()).all(|(a, b)| lim(a) == lim(b)),
        "samples": if small { json!(vals.iter().map(&lim).collect::<Vec<_>>()) } else { json!([]) },
        "file": if small { json!(file) } else { json!([]) },
        "back": if small { json!(back.iter().map(&lim).collect::<Vec<_>>()) } else { json!([]) }})
}

/// roundtrip --out FILE --seed S
pub fn cmd_roundtrip(args: &[String]) -> i32 {
    quiet_panics();
    let mut o = std::io::BufWriter::new(std::fs::File::create(arg_val(args, "--out").expect("--out")).expect("create"));
    let seed = arg_usize(args, "--seed", 1) as u64;
    let mut rng = Rng::new(seed);
    let mut n = 0;
    let patterns: [u32; 8] = [0, 1, 0x7fc00001, 0xffc12345, 0x7f800000, 0xff800000, 0x80000000, 0xffffffff];
    for len in [0usize, 1, 5, 63, 1024, 1025, 4096, 4097, 9000] {
        for chunk in [1usize, 7, 100000] {
            if len > 100 && chunk == 1 {
                continue;
            }
            let bits: Vec<u32> = (0..len).map(|i| if rng.chance(1, 3) { patterns[i % 8] } else { rng.next() as u32 }).collect();
            let e = roundtrip::<u8>(bits.iter().map(|b| *b as u8).collect(), |v| vec![*v as i64], chunk);
            writeln!(o, "{e}").unwrap();
            let e = roundtrip::<u32>(bits.clone(), |v| limbs_u32(*v), chunk);
            writeln!(o, "{e}").unwrap();
            let e = roundtrip::<i32>(bits.iter().map(|b| *b as i32).collect(), |v| limbs_u32(*v as u32), chunk);
            writeln!(o, "{e}").unwrap();
            let e = roundtrip::<Float>(bits.iter().map(|b| Float::from_bits(*b)).collect(), |v| limbs_u32(v.to_bits()), chunk);
            writeln!(o, "{e}").unwrap();
            let e = roundtrip::<Complex>(
                bits.iter().map(|b| Complex::new(Float::from_bits(*b), Float::from_bits(b.rotate_left(7)))).collect(),
                |v| {
                    let mut l = limbs_u32(v.re.to_bits());
                    l.extend(limbs_u32(v.im.to_bits()));
                    l
                },
                chunk,
            );
            writeln!(o, "{e}").unwrap();
            n += 5;
        }
    }
    // default-size streams: the sink finds far more than 65536 samples waiting in one call
    for len in [65537usize, 100000, 300000] {
        let bits: Vec<u32> = (0..len).map(|i| (i as u32).wrapping_mul(2654435761)).collect();
        writeln!(o, "{}", roundtrip_sz::<u32>(bits.clone(), |v| limbs_u32(*v), 1 << 30, 0)).unwrap();
        writeln!(o, "{}", roundtrip_sz::<u8>(bits.iter().map(|b| *b as u8).collect(), |v| vec![*v as i64], 1 << 30, 0)).unwrap();
        writeln!(o, "{}", roundtrip_sz::<Float>(bits.iter().map(|b| Float::from_bits(*b)).collect(), |v| limbs_u32(v.to_bits()), 90000, 0)).unwrap();
        n += 3;
    }
    rustradio::verif::set_thread_stream_size(0);
    o.flush().unwrap();
    println!("{}", json!({"events": n}));
    0
}

// --------------------------------------------------------------- C17

fn mode_of(s: &str) -> Mode {
    match s {
        "create" => Mode::Create,
        "overwrite" => Mode::Overwrite,
        _ => Mode::Append,
    }
}

/// sink-modes --out FILE : every open mode x initial file state, stream and
/// packet sink.
pub fn cmd_sink_modes(args: &[String]) -> i32 {
    quiet_panics();
    rustradio::verif::set_thread_stream_size(4096);
    let mut o = std::io::BufWriter::new(std::fs::File::create(arg_val(args, "--out").expect("--out")).expect("create"));
    let is_root = unsafe { libc::geteuid() } == 0;
    let mut n = 0;
    for packet in [false, true] {
        for mode in ["create", "overwrite", "append"] {
            for initial in ["absent", "empty", "nonempty", "directory", "unwritable"] {
                let dir = tempfile::tempdir().unwrap();
                let path = dir.path().join("out.bin");
                let old: Vec<u8> = match initial {
                    "empty" => vec![],
                    "nonempty" | "unwritable" => vec![9, 8, 7, 6, 5, 4, 3],
                    _ => vec![],
                };
                match initial {
                    "absent" => {}
                    "directory" => std::fs::create_dir(&path).unwrap(),
                    _ => std::fs::write(&path, &old).unwrap(),
                }
                if initial == "unwritable" {
                    use std::os::unix::fs::PermissionsExt;
                    std::fs::set_permissions(&path, std::fs::Permissions::from_mode(0o444)).unwrap();
                }
                let skipped = initial == "unwritable" && is_root;
                let (opened, content, new): (bool, Vec<u8>, Vec<u8>) = if packet {
                    let (ws, rs) = rustradio::stream::new_nocopy_stream::<String>();
                    match NoCopyFileSink::new(rs, &path, mode_of(mode)) {
                        Err(_) => (false, std::fs::read(&path).unwrap_or_default(), vec![]),
                        Ok(mut s) => {
                            ws.push("ab".to_string(), &[]);
                            ws.push("c".to_string(), &[]);
                            let _ = s.work();
                            let _ = s.work();
                            let _ = s.work();
                            drop(s);
                            (true, std::fs::read(&path).unwrap_or_default(), b"ab\nc\n".to_vec())
                        }
                    }
                } else {
                    let (ws, rs) = new_stream::<u8>();
                    match FileSink::new(rs, &path, mode_of(mode)) {
                        Err(_) => (false, std::fs::read(&path).unwrap_or_default(), vec![]),
                        Ok(mut s) => {
                            let mut w = ws.write_buf().unwrap();
                            w.slice()[..3].copy_from_slice(&[1, 2, 3]);
                            w.produce(3, &[]);
                            let _ = s.work();
                            let _ = s.work();
                            drop(s);
                            (true, std::fs::read(&path).unwrap_or_default(), vec![1, 2, 3])
                        }
                    }
                };
                writeln!(o, "{}", json!({"ev": "mode", "packet": packet, "mode": mode, "initial": initial, "opened": opened,
                    "old": old, "new": new, "content": content, "skipped": skipped})).unwrap();
                n += 1;
            }
        }
    }
    o.flush().unwrap();
    println!("{}", json!({"events": n}));
    0
}

/// sink-child --path P --point NAME --k K --n N [--packet]: stream N samples
/// through the sink, printing "ack <consumed total>" after every work();
/// kills itself at the K-th time crash point NAME is reached (or streams to
/// the end if NAME is "none").
pub fn cmd_sink_child(args: &[String]) -> i32 {
    rustradio::verif::set_thread_stream_size(arg_usize(args, "--stream", 4096));
    let chunk = arg_usize(args, "--chunk", 700);
    let fsize = arg_usize(args, "--fsize", 0);
    // the file system refuses to grow a file beyond `fsize` bytes: writes come back short, then
    // fail (applied after the streams exist: their backing files are files too)
    let apply_fsize = || {
        if fsize > 0 {
            // SAFETY: plain libc calls on our own process.
            unsafe {
                libc::signal(libc::SIGXFSZ, libc::SIG_IGN);
                let rl = libc::rlimit { rlim_cur: fsize as u64, rlim_max: libc::RLIM_INFINITY };
                libc::setrlimit(libc::RLIMIT_FSIZE, &rl);
            }
        }
    };
    let path = arg_val(args, "--path").expect("--path");
    let point = arg_val(args, "--point").unwrap_or("none".to_string());
    let k = arg_usize(args, "--k", 1);
    let n = arg_usize(args, "--n", 10000);
    let packet = args.iter().any(|a| a == "--packet");
    if point != "none" {
        rustradio::verif::arm_crash(&point, k);
    }
    let stdout = std::io::stdout();
    let mut out = stdout.lock();
    if packet {
        let (ws, rs) = rustradio::stream::new_nocopy_stream::<String>();
        let mut s = NoCopyFileSink::new(rs, &path, Mode::Create).unwrap();
        let mut acked = 0usize;
        for i in 0..n {
            // every 7th packet is empty: its record is just the separator
            ws.push(if i % 7 == 3 { String::new() } else { format!("p{i:06}") }, &[]);
            if i % 3 == 2 || i == n - 1 {
                while matches!(s.work(), Ok(BlockRet::Again)) {
                    acked += 1;
                    writeln!(out, "ack {acked}").unwrap();
                    out.flush().unwrap();
                }
            }
        }
    } else {
        let (ws, rs) = new_stream::<u32>();
        let mut s = FileSink::new(rs, &path, Mode::Create).unwrap();
        apply_fsize();
        let mut sent = 0usize;
        let mut acked = 0usize;
        let mut rng = Rng::new(k as u64 + 77);
        while sent < n {
            let mut w = ws.write_buf().unwrap();
            let m = w.len().min(1 + rng.below(chunk)).min(n - sent);
            for (j, x) in w.slice()[..m].iter_mut().enumerate() {
                *x = (sent + j) as u32;
            }
            w.produce(m, &[]);
            sent += m;
            writeln!(out, "fed {sent}").unwrap();
            out.flush().unwrap();
            let before = rs_used(&ws);
            let r = s.work();
            acked += before - rs_used(&ws);
            writeln!(out, "ack {acked}").unwrap();
            out.flush().unwrap();
            if r.is_err() {
                writeln!(out, "err").unwrap();
                break;
            }
        }
    }
    writeln!(out, "done").unwrap();
    0
}
fn rs_used(ws: &rustradio::stream::WriteStream<u32>) -> usize {
    ws.verif_state().2
}

/// sink-crash --out FILE --cases FILE : run sink-child for every case
/// {point, k, packet, kill_after_us}, read the file back, log the outcome.
pub fn cmd_sink_crash(args: &[String]) -> i32 {
    let f = std::io::BufReader::new(std::fs::File::open(arg_val(args, "--cases").expect("--cases")).expect("open"));
    let mut o = std::io::BufWriter::new(std::fs::File::create(arg_val(args, "--out").expect("--out")).expect("create"));
    let exe = std::env::current_exe().unwrap();
    let mut nev = 0;
    for line in f.lines() {
        let c: Value = serde_json::from_str(&line.unwrap()).expect("json");
        let dir = tempfile::tempdir().unwrap();
        let path = dir.path().join("sink.bin");
        let packet = c["packet"].as_bool().unwrap_or(false);
        let n = c["n"].as_u64().unwrap_or(5000) as usize;
        let mut cmd = std::process::Command::new(&exe);
        cmd.arg("sink-child").arg("--path").arg(&path).arg("--point").arg(c["point"].as_str().unwrap_or("none"))
            .arg("--k").arg(c["k"].as_u64().unwrap_or(1).to_string()).arg("--n").arg(n.to_string());
        if packet {
            cmd.arg("--packet");
        }
        for k in ["stream", "chunk", "fsize"] {
            if let Some(v) = c[k].as_u64() {
                cmd.arg(format!("--{k}")).arg(v.to_string());
            }
        }
        cmd.stdout(std::process::Stdio::piped()).stderr(std::process::Stdio::null());
        let mut child = cmd.spawn().unwrap();
        let kill_us = c["kill_after_us"].as_u64();
        let pid = child.id();
        let killer = kill_us.map(|us| {
            std::thread::spawn(move || {
                std::thread::sleep(std::time::Duration::from_micros(us));
                // SAFETY: sending a signal to our own child.
                unsafe { libc::kill(pid as i32, libc::SIGKILL) };
            })
        });
        let mut acked = 0usize;
        let mut fed = 0usize;
        let mut finished = false;
        let mut so = String::new();
        child.stdout.take().unwrap().read_to_string(&mut so).unwrap();
        for l in so.lines() {
            if let Some(v) = l.strip_prefix("ack ") {
                acked = v.parse().unwrap_or(acked);
            }
            if let Some(v) = l.strip_prefix("fed ") {
                fed = v.parse().unwrap_or(fed);
            }
            if l == "done" && !so.lines().any(|x| x == "err") {
                finished = true;
            }
        }
        let status = child.wait().unwrap();
        if let Some(k) = killer {
            let _ = k.join();
        }
        let file = std::fs::read(&path).unwrap_or_default();
        // expected serialised stream
        let rec = |i: usize| if i % 7 == 3 { "\n".to_string() } else { format!("p{i:06}\n") };
        let (unit, prefix_ok, whole, acked_bytes, fed_bytes) = if packet {
            let exp: Vec<u8> = (0..n).flat_map(|i| rec(i).into_bytes()).collect();
            let ab: usize = (0..acked.min(n)).map(|i| rec(i).len()).sum();
            (8usize, file.len() <= exp.len() && file[..] == exp[..file.len()], exp.len(), ab, 0usize)
        } else {
            let exp: Vec<u8> = (0..n as u32).flat_map(|i| i.to_le_bytes()).collect();
            (4usize, file.len() <= exp.len() && file[..] == exp[..file.len()], exp.len(), acked * 4, fed * 4)
        };
        writeln!(o, "{}", json!({"ev": "crash", "packet": packet, "point": c["point"], "k": c["k"], "kill_after_us": c["kill_after_us"].as_u64().unwrap_or(0),
            "acked": acked, "fed": fed, "unit": unit, "acked_bytes": acked_bytes, "fed_bytes": fed_bytes, "file_len": file.len(), "prefix_ok": prefix_ok, "total": whole,
            "finished": finished, "killed": !status.success()})).unwrap();
        nev += 1;
    }
    o.flush().unwrap();
    println!("{}", json!({"events": nev}));
    0
}

// ---------------------------------------------------------------- C18

/// A marker visible in the strace log: openat of a path that does not exist.
fn strace_mark(tag: &str) {
    let _ = std::fs::File::open(format!("/nonexistent-vh-mark/{tag}"));
}
fn count_dir(p: &str) -> usize {
    std::fs::read_dir(p).map(|d| d.count()).unwrap_or(0)
}
fn count_maps() -> usize {
    std::fs::read_to_string("/proc/self/maps").map(|s| s.lines().filter(|l| l.contains("(deleted)")).count()).unwrap_or(0)
}

enum Slot {
    U8(std::sync::Arc<rustradio::circular_buffer::Buffer<u8>>),
    U32(std::sync::Arc<rustradio::circular_buffer::Buffer<u32>>),
    /// other element sizes: only creation / drop are exercised
    Other(Box<dyn std::any::Any + Send>),
}

/// Aliasing probe through the public window API, on an empty ring: the write
/// window starting at position i + 1 has its last element at absolute index
/// i + cap of the doubled mapping. A value written there must be read back at
/// absolute index i (first element of a read window starting at i).
/// Works for i in 0 .. cap - 2 (the very last byte of the second mapping is
/// never part of a window).
fn alias_probe(b: &std::sync::Arc<rustradio::circular_buffer::Buffer<u8>>, cap: usize, i: usize, val: u8) -> (u8, bool) {
    let p = (i + 1) % cap;
    let cur = b.verif_state().0;
    let d = (p + cap - cur) % cap;
    if d > 0 {
        // move the empty ring to position p without touching memory
        let w = b.clone().write_buf().unwrap();
        w.produce(d, &[]);
        let (r, _) = b.clone().read_buf().unwrap();
        r.consume(d);
    }
    let mut w = b.clone().write_buf().unwrap();
    let full = w.len() == cap;
    w.slice()[cap - 1] = val; // absolute index p + cap - 1 = i + cap
    w.produce(cap, &[]);
    let (r, _) = b.clone().read_buf().unwrap();
    r.consume(cap - 1); // read position is now i, one sample left
    let (r, _) = b.clone().read_buf().unwrap();
    let got = r.slice()[0]; // absolute index i
    r.consume(1);
    (got, full)
}

type Slots = std::sync::Arc<std::sync::Mutex<std::collections::HashMap<u64, Slot>>>;

/// One scripted operation of mmap-run (see cmd_mmap_run).
fn mmap_op(op: &Value, slots: &Slots) -> Value {
        let kind = op[1].as_str().unwrap();
        let r = match kind {
            "new" => {
                let slot = op[2].as_u64().unwrap();
                let size = op[3].as_u64().unwrap() as usize;
                let elem = op[4].as_u64().unwrap();
                strace_mark(&format!("new-begin-{slot}"));
                fn other<T: Copy + Send + Sync + 'static>(size: usize) -> Result<rustradio::Result<Slot>, String> {
                    catch(|| rustradio::circular_buffer::Buffer::<T>::new(size)).map(|r| r.map(|b| Slot::Other(Box::new(std::sync::Arc::new(b)))))
                }
                let res = if elem == 4 {
                    catch(|| rustradio::circular_buffer::Buffer::<u32>::new(size)).map(|r| r.map(|b| Slot::U32(std::sync::Arc::new(b))))
                } else if elem == 3 {
                    other::<[u8; 3]>(size)
                } else if elem == 6 {
                    other::<[u16; 3]>(size)
                } else if elem == 8 {
                    other::<rustradio::Complex>(size)
                } else if elem == 12 {
                    other::<[f32; 3]>(size)
                } else if elem == 24 {
                    other::<[u64; 3]>(size)
                } else if elem == 4096 {
                    other::<crate::graphs::Big>(size)
                } else if elem == 0 {
                    other::<()>(size) // zero-sized elements: must be refused
                } else if elem == 8192 {
                    other::<[u64; 1024]>(size)
                } else if elem == 16384 {
                    other::<[u64; 2048]>(size)
                } else {
                    catch(|| rustradio::circular_buffer::Buffer::<u8>::new(size)).map(|r| r.map(|b| Slot::U8(std::sync::Arc::new(b))))
                };
                let out = match res {
                    Ok(Ok(s)) => {
                        slots.lock().unwrap().insert(slot, s);
                        json!({"ev": "new", "slot": slot, "size": size, "elem": elem, "result": "ok"})
                    }
                    Ok(Err(e)) => json!({"ev": "new", "slot": slot, "size": size, "elem": elem, "result": "err", "msg": format!("{e}")}),
                    Err(p) => json!({"ev": "new", "slot": slot, "size": size, "elem": elem, "result": "panic", "msg": p}),
                };
                strace_mark(&format!("new-end-{slot}"));
                out
            }
            "drop" => {
                let slot = op[2].as_u64().unwrap();
                strace_mark(&format!("drop-begin-{slot}"));
                let had = slots.lock().unwrap().remove(&slot).is_some();
                strace_mark(&format!("drop-end-{slot}"));
                json!({"ev": "drop", "slot": slot, "had": had})
            }
            "alias" => {
                let slot = op[2].as_u64().unwrap();
                let i = op[3].as_u64().unwrap() as usize;
                let g = slots.lock().unwrap();
                match g.get(&slot) {
                    Some(Slot::U8(b)) => {
                        let cap = b.total_size();
                        let val = (i as u8).wrapping_mul(37).wrapping_add(11);
                        match catch(|| alias_probe(b, cap, i % cap, val)) {
                            Ok((got, full)) => json!({"ev": "alias", "slot": slot, "i": i % cap, "wrote": val, "read": got, "full_window": full}),
                            Err(p) => json!({"ev": "alias", "slot": slot, "i": i % cap, "wrote": val, "read": -1, "panic": p}),
                        }
                    }
                    _ => json!({"ev": "alias", "slot": slot, "skipped": true}),
                }
            }
            _ => {
                let n = op[2].as_u64().unwrap();
                strace_mark(&format!("quiet-{n}"));
                json!({"ev": "mark", "n": n, "fds": count_dir("/proc/self/fd"), "maps": count_maps()})
            }
        };
    r
}

/// mmap-run --script FILE --out FILE. Script: {"ops": [[thread, op, ...]], "rlimit_as": bytes|0}
/// ops: ["new", slot, size, elem] ["drop", slot] ["mark", n] ["alias", slot, i]
pub fn cmd_mmap_run(args: &[String]) -> i32 {
    quiet_panics();
    let script: Value = serde_json::from_str(&std::fs::read_to_string(arg_val(args, "--script").expect("--script")).unwrap()).unwrap();
    let mut o = std::io::BufWriter::new(std::fs::File::create(arg_val(args, "--out").expect("--out")).expect("create"));
    let nthreads = script["threads"].as_u64().unwrap_or(1) as usize;
    if nthreads == 0 {
        // everything in the main thread (for system call fault injection by ordinal)
        let slots: Slots = Default::default();
        let mut n = 0;
        for op in script["ops"].as_array().unwrap() {
            let r = mmap_op(op, &slots);
            writeln!(o, "{r}").unwrap();
            o.flush().unwrap();
            n += 1;
        }
        println!("{}", json!({"events": n}));
        return 0;
    }
    // worker threads execute ops one at a time (serialised), so syscalls of different ops do not interleave
    let slots: Slots = Default::default();
    let (txs, handles): (Vec<_>, Vec<_>) = (0..nthreads)
        .map(|_| {
            let (tx, rx) = std::sync::mpsc::channel::<(Value, std::sync::mpsc::Sender<Value>)>();
            let slots = slots.clone();
            let h = std::thread::spawn(move || {
                for (op, reply) in rx {
                    let r = mmap_op(&op, &slots);
                    let _ = reply.send(r);
                }
            });
            (tx, h)
        })
        .unzip();
    if let Some(lim) = script["rlimit_as"].as_u64().filter(|l| *l > 0) {
        // grow-only address space limit relative to current usage
        let cur = std::fs::read_to_string("/proc/self/statm").ok().and_then(|s| s.split(' ').next().map(|x| x.parse::<u64>().unwrap_or(0))).unwrap_or(0) * 4096;
        let rl = libc::rlimit { rlim_cur: cur + lim, rlim_max: libc::RLIM_INFINITY };
        // SAFETY: plain setrlimit call.
        unsafe { libc::setrlimit(libc::RLIMIT_AS, &rl) };
    }
    let mut n = 0;
    for op in script["ops"].as_array().unwrap() {
        let t = op[0].as_u64().unwrap() as usize % nthreads;
        let (rtx, rrx) = std::sync::mpsc::channel();
        txs[t].send((op.clone(), rtx)).unwrap();
        let r = rrx.recv().unwrap();
        writeln!(o, "{r}").unwrap();
        n += 1;
    }
    drop(txs);
    for h in handles {
        let _ = h.join();
    }
    o.flush().unwrap();
    println!("{}", json!({"events": n}));
    0
}

// ---------------------------------------------------------------- C15

/// sigmf-fuzz --out FILE --seed S --n N: malformed SigMF metadata, recordings
/// and archives into SigMFSourceBuilder::build(); a panic is recorded.
pub fn cmd_sigmf_fuzz(args: &[String]) -> i32 {
    quiet_panics();
    rustradio::verif::set_thread_stream_size(4096);
    let mut o = std::io::BufWriter::new(std::fs::File::create(arg_val(args, "--out").expect("--out")).expect("create"));
    let mut rng = Rng::new(arg_usize(args, "--seed", 1) as u64);
    let n = arg_usize(args, "--n", 100);
    let metas: Vec<(&str, String)> = vec![
        ("ok", r#"{"global":{"core:datatype":"ru8_le","core:version":"1.1.0"},"captures":[],"annotations":[]}"#.into()),
        ("empty", "".into()),
        ("not_json", "{{{{".into()),
        ("null", "null".into()),
        ("array", "[]".into()),
        ("no_global", r#"{"captures":[]}"#.into()),
        ("no_datatype", r#"{"global":{"core:version":"1.1.0"},"captures":[]}"#.into()),
        ("datatype_number", r#"{"global":{"core:datatype":7,"core:version":"1.1.0"},"captures":[]}"#.into()),
        ("wrong_type", r#"{"global":{"core:datatype":"cf32_le","core:version":"1.1.0"},"captures":[]}"#.into()),
        ("no_captures", r#"{"global":{"core:datatype":"ru8_le","core:version":"1.1.0"}}"#.into()),
        ("captures_string", r#"{"global":{"core:datatype":"ru8_le","core:version":"1.1.0"},"captures":"x"}"#.into()),
        ("negative_start", r#"{"global":{"core:datatype":"ru8_le","core:version":"1.1.0"},"captures":[{"core:sample_start":-5}]}"#.into()),
        ("huge_rate", r#"{"global":{"core:datatype":"ru8_le","core:version":"1.1.0","core:sample_rate":1e400},"captures":[]}"#.into()),
        ("deep", format!("{}{}", "[".repeat(2000), "]".repeat(2000))),
        ("binary", String::from_utf8_lossy(&[0xff, 0xfe, 0x00, 0x01, 0x80]).into_owned()),
    ];
    let mut events = 0;
    for k in 0..n {
        let (mname, meta) = &metas[k % metas.len()];
        let shape = (k / metas.len()) % 8;
        let dir = tempfile::tempdir().unwrap();
        let data: Vec<u8> = (0..rng.below(50)).map(|i| i as u8).collect();
        let (case, path): (String, std::path::PathBuf) = match shape {
            0 => {
                std::fs::write(dir.path().join("r.sigmf-meta"), meta).unwrap();
                std::fs::write(dir.path().join("r.sigmf-data"), &data).unwrap();
                (format!("recording:{mname}"), dir.path().join("r.sigmf"))
            }
            1 => {
                std::fs::write(dir.path().join("r.sigmf-meta"), meta).unwrap();
                (format!("recording_no_data:{mname}"), dir.path().join("r.sigmf"))
            }
            2 => (format!("missing:{mname}"), dir.path().join("nothing.sigmf")),
            3 => {
                let p = dir.path().join("a.sigmf");
                std::fs::write(&p, meta.as_bytes()).unwrap(); // not a tar at all
                (format!("archive_not_tar:{mname}"), p)
            }
            _ => {
                let p = dir.path().join("a.sigmf");
                let f = std::fs::File::create(&p).unwrap();
                let mut tb = tar::Builder::new(f);
                let mut add = |name: &str, content: &[u8], dir: bool| {
                    let mut h = tar::Header::new_gnu();
                    h.set_size(content.len() as u64);
                    h.set_mode(0o644);
                    if dir {
                        h.set_entry_type(tar::EntryType::Directory);
                    }
                    h.set_cksum();
                    let _ = tb.append_data(&mut h, name, content);
                };
                match shape {
                    4 => {
                        add("x.sigmf-meta", meta.as_bytes(), false);
                        add("x.sigmf-data", &data, false);
                    }
                    5 => add("x.sigmf-meta", meta.as_bytes(), false), // no data member
                    6 => {
                        add("x.sigmf-meta", meta.as_bytes(), false);
                        add("y.sigmf-meta", meta.as_bytes(), false);
                        add("x.sigmf-data", &data, false);
                    }
                    _ => {
                        add("x.sigmf-data", &data, false);
                        add("x.sigmf-meta", b"", true); // meta is a directory entry
                        add("x.sigmf-data", &data, false); // duplicate data
                    }
                }
                let _ = tb.finish();
                (format!("archive{shape}:{mname}"), p)
            }
        };
        let r = catch(|| {
            match SigMFSourceBuilder::<u8>::new(path.clone()).build() {
                Ok((mut b, out)) => {
                    // drive it a little
                    for _ in 0..20 {
                        match b.work() {
                            Ok(BlockRet::EOF) | Err(_) => break,
                            _ => {}
                        }
                        if let Ok((w, _)) = out.read_buf() {
                            let k = w.len();
                            w.consume(k);
                        }
                    }
                    "ok"
                }
                Err(_) => "err",
            }
        });
        let (result, msg) = match r {
            Ok(s) => (s.to_string(), String::new()),
            Err(p) => ("panic".to_string(), p),
        };
        writeln!(o, "{}", json!({"ev": "sigmf", "case": case, "result": result, "msg": msg})).unwrap();
        events += 1;
    }
    o.flush().unwrap();
    println!("{}", json!({"events": events}));
    0
}
