//! C01/C02: sequential ring conformance.
//!
//! * `ring-replay`: replay TLC transition-cover paths of specs/Ring.tla on a
//!   real stream, comparing the projected state after every step.
//! * `ring-trace`: drive a real stream with a seeded random op sequence and
//!   record one ndjson event per operation for validation by Ring_Trace.tla.
use crate::common::*;
use rustradio::circular_buffer::{BufferReader, BufferWriter};
use rustradio::stream::{ReadStream, Tag, TagValue, WriteStream, new_stream};
use serde_json::{Value, json};
use std::io::{BufRead, Write};

fn tag_for(abs1: u64, ord: u64, relpos: usize) -> Tag {
    Tag::new(relpos, format!("k{ord}"), TagValue::U64(10 * abs1 + ord))
}
/// Decode an observed tag into the model's tag id, or -1 if key/value are not
/// what was committed.
fn tag_id(t: &Tag) -> i64 {
    match t.val() {
        TagValue::U64(v) if t.key() == format!("k{}", v % 10) => *v as i64,
        _ => -1,
    }
}

struct Real<T: Sample> {
    ws: WriteStream<T>,
    rs: ReadStream<T>,
    w: Option<BufferWriter<T>>,
    w2: Option<BufferWriter<T>>,
    /// a second read window (stale once the other one has consumed)
    r2: Option<BufferReader<T>>,
    r: Option<(BufferReader<T>, Vec<Tag>)>,
    produced: u64,
    modulus: u64,
}

impl<T: Sample> Real<T> {
    fn new(size: usize, modulus: u64) -> Result<Self, String> {
        rustradio::verif::set_thread_stream_size(size);
        let (ws, rs) = catch(new_stream::<T>)?;
        Ok(Self {
            ws,
            rs,
            w: None,
            w2: None,
            r2: None,
            r: None,
            produced: 0,
            modulus,
        })
    }
    fn st(&self) -> Value {
        let (rpos, wpos, used, _cap, tags) = self.rs.verif_state();
        json!({"rpos": rpos, "wpos": wpos, "used": used,
               "tc": tags.iter().filter(|(_, n)| *n > 0).map(|(p, n)| json!([p, n])).collect::<Vec<_>>()})
    }
    fn val(&self, abs1: u64) -> T {
        T::from_id(if self.modulus == 0 { abs1 } else { abs1 % self.modulus })
    }
    /// Observed window contents as ids (-1 = torn).
    fn ids(s: &[T]) -> Vec<i64> {
        s.iter().map(|x| x.id().map(|v| v as i64).unwrap_or(-1)).collect()
    }
    /// Run-length encoding into maximal runs of modular successors.
    fn runs(&self, s: &[T]) -> Vec<Value> {
        let m = self.modulus as i64;
        let mut out: Vec<(i64, usize)> = Vec::new();
        let mut prev: Option<i64> = None;
        for v in Self::ids(s) {
            let cont = match prev {
                Some(p) if p >= 0 && v >= 0 => v == if m > 0 { (p + 1) % m } else { p + 1 },
                _ => false,
            };
            if cont {
                out.last_mut().unwrap().1 += 1;
            } else {
                out.push((v, 1));
            }
            prev = Some(v);
        }
        out.into_iter().map(|(a, b)| json!([a, b])).collect()
    }
}

// ------------------------------------------------------------------ replay

fn model_tagcounts(to: &Value) -> Vec<Value> {
    to["tags"]
        .as_array()
        .unwrap()
        .iter()
        .enumerate()
        .filter(|(_, v)| !v.as_array().unwrap().is_empty())
        .map(|(c, v)| json!([c, v.as_array().unwrap().len()]))
        .collect()
}

/// Replay one path. Returns Err(description) at the first divergence.
fn replay_path<T: Sample>(size: usize, steps: &[Value]) -> Result<usize, String> {
    let mut real = Real::<T>::new(size, 0)?;
    for (i, step) in steps.iter().enumerate() {
        let act = &step["act"];
        let to = &step["to"];
        let op = act["op"].as_str().unwrap();
        let fail = |what: String| Err(format!("step {i} {act}: {what}"));
        let check_state = |real: &Real<T>| -> Result<(), String> {
            let st = real.st();
            let want = json!({"rpos": to["rpos"], "wpos": to["wpos"], "used": to["used"], "tc": model_tagcounts(to)});
            if st != want {
                return Err(format!("step {i} {act}: state {st} expected {want}"));
            }
            Ok(())
        };
        match op {
            "acqw" => {
                let w = match catch(|| real.ws.write_buf()) {
                    Ok(Ok(w)) => w,
                    Ok(Err(e)) => return fail(format!("write_buf error {e}")),
                    Err(p) => return fail(format!("write_buf panic {p}")),
                };
                let (s, e) = w.verif_range();
                let want = (to["wwin"][0].as_u64().unwrap() as usize, to["wwin"][1].as_u64().unwrap() as usize);
                if (s, e - s) != want || w.len() != want.1 {
                    return fail(format!("write window ({s},{}) expected {want:?}", e - s));
                }
                real.w = Some(w);
                check_state(&real)?;
            }
            "commit" => {
                let k = act["k"].as_u64().unwrap() as usize;
                let n = act["n"].as_u64().unwrap() as usize;
                let mut w = real.w.take().unwrap();
                let produced = real.produced;
                let vals: Vec<T> = (0..k).map(|j| real.val(produced + j as u64 + 1)).collect();
                let tags: Vec<Tag> = act["tg"]
                    .as_array()
                    .unwrap()
                    .iter()
                    .map(|t| {
                        let p = t[0].as_u64().unwrap();
                        tag_for(produced + p + 1, t[1].as_u64().unwrap(), p as usize)
                    })
                    .collect();
                match catch(move || {
                    w.slice()[..k].copy_from_slice(&vals);
                    w.produce(n, &tags);
                }) {
                    Ok(()) => {}
                    Err(p) => return fail(format!("commit panicked: {p}")),
                }
                real.produced += n as u64;
                check_state(&real)?;
            }
            "acqw2" => {
                // a second write window while the first one is still held: the
                // older one (real.w) becomes the stale one.
                let w = match catch(|| real.ws.write_buf()) {
                    Ok(Ok(w)) => w,
                    Ok(Err(e)) => return fail(format!("second write_buf error {e}")),
                    Err(p) => return fail(format!("second write_buf panic {p}")),
                };
                let (s, e) = w.verif_range();
                let want = (to["wstale"][0].as_u64().unwrap() as usize, to["wstale"][1].as_u64().unwrap() as usize);
                if (s, e - s) != want {
                    return fail(format!("second write window ({s},{}) expected {want:?}", e - s));
                }
                real.w2 = real.w.take();
                real.w = Some(w);
                check_state(&real)?;
            }
            "dropstale" => {
                real.w2 = None;
                check_state(&real)?;
            }
            "stale_commit_refused" => {
                let n = act["n"].as_u64().unwrap() as usize;
                let w = real.w2.take().unwrap();
                if catch(move || w.produce(n, &[])).is_ok() {
                    return fail("commit through a stale window larger than the free space was accepted".to_string());
                }
                check_state(&real)?;
            }
            "commit0" => {
                let w = real.w.take().unwrap();
                if let Err(p) = catch(move || w.produce(0, &[])) {
                    return fail(format!("produce(0) panicked: {p}"));
                }
                check_state(&real)?;
            }
            "dropw" => {
                real.w = None;
                check_state(&real)?;
            }
            "commit_refused" => {
                let n = act["n"].as_u64().unwrap() as usize;
                let w = real.w.take().unwrap();
                if catch(move || w.produce(n, &[])).is_ok() {
                    return fail("oversized commit was accepted".to_string());
                }
                check_state(&real)?; // data unchanged.
            }
            "acqr" => {
                let (r, tags) = match catch(|| real.rs.read_buf()) {
                    Ok(Ok(x)) => x,
                    Ok(Err(e)) => return fail(format!("read_buf error {e}")),
                    Err(p) => return fail(format!("read_buf panic {p}")),
                };
                let (s, e) = r.verif_range();
                let want = (to["rwin"][0].as_u64().unwrap() as usize, to["rwin"][1].as_u64().unwrap() as usize);
                if (s, e - s) != want || r.len() != want.1 {
                    return fail(format!("read window ({s},{}) expected {want:?}", e - s));
                }
                let got = json!(Real::<T>::ids(r.slice()));
                if got != to["rwin"][2] {
                    return fail(format!("read contents {got} expected {}", to["rwin"][2]));
                }
                let gt = json!(tags.iter().map(|t| json!([t.pos(), tag_id(t)])).collect::<Vec<_>>());
                if gt != to["rwin"][3] {
                    return fail(format!("read tags {gt} expected {}", to["rwin"][3]));
                }
                real.r = Some((r, tags));
                check_state(&real)?;
            }
            "consume" => {
                let m = act["m"].as_u64().unwrap() as usize;
                let (r, _) = real.r.take().unwrap();
                // The window still shows what it showed when taken.
                let got = json!(Real::<T>::ids(r.slice()));
                if got != step["from"]["rwin"][2] {
                    return fail(format!("window contents changed: {got} expected {}", step["from"]["rwin"][2]));
                }
                if let Err(p) = catch(move || r.consume(m)) {
                    return fail(format!("consume panicked: {p}"));
                }
                check_state(&real)?;
            }
            "dropr" => {
                real.r = None;
                check_state(&real)?;
            }
            "acqr2" => {
                // a second read window while the first is held
                let (r, _) = match catch(|| real.rs.read_buf()) {
                    Ok(Ok(x)) => x,
                    Ok(Err(e)) => return fail(format!("second read_buf error {e}")),
                    Err(p) => return fail(format!("second read_buf panic {p}")),
                };
                let (s, e) = r.verif_range();
                let want = (to["rstale"][0].as_u64().unwrap() as usize, to["rstale"][1].as_u64().unwrap() as usize);
                if (s, e - s) != want {
                    return fail(format!("second read window ({s},{}) expected {want:?}", e - s));
                }
                real.r2 = Some(r);
                check_state(&real)?;
            }
            "dropstale_r" => {
                real.r2 = None;
                check_state(&real)?;
            }
            "consume_stale" => {
                // consume through the window that is stale by now: acts on the live state
                let m = act["m"].as_u64().unwrap() as usize;
                let r = real.r2.take().unwrap();
                if let Err(p) = catch(move || r.consume(m)) {
                    return fail(format!("consume through the second read window panicked: {p}"));
                }
                check_state(&real)?;
            }
            "stale_consume_refused" => {
                let m = act["m"].as_u64().unwrap() as usize;
                let r = real.r2.take().unwrap();
                if catch(move || r.consume(m)).is_ok() {
                    return fail("consume through a stale read window of more than is buffered was accepted".to_string());
                }
                check_state(&real)?;
            }
            "consume_refused" => {
                let m = act["m"].as_u64().unwrap() as usize;
                let (r, _) = real.r.take().unwrap();
                if catch(move || r.consume(m)).is_ok() {
                    return fail("oversized consume was accepted".to_string());
                }
                check_state(&real)?;
            }
            _ => return fail("unknown op".to_string()),
        }
    }
    Ok(steps.len())
}

/// ring-replay --paths FILE --cap N [--elem page|sub]
/// FILE: one JSON array of steps per line. Output: one JSON summary line.
pub fn cmd_replay(args: &[String]) -> i32 {
    quiet_panics();
    let file = arg_val(args, "--paths").expect("--paths");
    let cap = arg_usize(args, "--cap", 4);
    let elem = arg_val(args, "--elem").unwrap_or("page".to_string());
    let f = std::io::BufReader::new(std::fs::File::open(&file).expect("open paths"));
    let mut paths = 0usize;
    let mut steps = 0usize;
    let mut fails: Vec<Value> = Vec::new();
    for (idx, line) in f.lines().enumerate() {
        let line = line.unwrap();
        if line.trim().is_empty() {
            continue;
        }
        let v: Value = serde_json::from_str(&line).expect("json");
        let st = v.as_array().unwrap();
        let r = match (elem.as_str(), cap) {
            ("page", _) => replay_path::<[u64; 512]>(cap * 4096, st),
            ("sub", 1) => replay_path::<[u64; 512]>(4096, st),
            ("sub", 2) => replay_path::<[u64; 256]>(4096, st),
            ("sub", 4) => replay_path::<[u64; 128]>(4096, st),
            ("sub", 8) => replay_path::<[u64; 64]>(4096, st),
            _ => Err(format!("unsupported elem/cap {elem}/{cap}")),
        };
        paths += 1;
        match r {
            Ok(n) => steps += n,
            Err(e) => {
                if fails.len() < 20 {
                    fails.push(json!({"path": idx, "error": e}));
                } else {
                    fails.push(json!({"path": idx}));
                }
            }
        }
    }
    println!("{}", json!({"paths": paths, "steps": steps, "nfail": fails.len(), "fails": fails.iter().take(20).collect::<Vec<_>>()}));
    0
}

// ------------------------------------------------------------ random trace

fn trace_run<T: Sample>(
    out: &mut impl Write,
    size: usize,
    modulus: u64,
    seed: u64,
    nops: usize,
) -> Result<usize, String> {
    // tag-heavy runs (every 3rd): up to 9 tags per commit (ordinals are one decimal digit in the tag id), several on one
    // sample, so that read windows with dozens of tags across the wrap occur
    let maxtags = if seed % 3 == 2 { 9 } else { 3 };
    let mut rng = Rng::new(seed);
    let mut real = match Real::<T>::new(size, modulus) {
        Ok(r) => r,
        Err(e) => {
            writeln!(out, "{}", json!({"op": "new_err", "err": e})).unwrap();
            return Ok(1);
        }
    };
    let cap = size / std::mem::size_of::<T>();
    writeln!(out, "{}", json!({"op": "reset", "cap": cap})).unwrap();
    let mut events = 1;
    // Sizes that hit 0, 1, everything, and the neighbourhood of the wrap.
    let pick_len = |rng: &mut Rng, max: usize, to_wrap: usize| -> usize {
        match rng.below(10) {
            0 => 0,
            1 => 1.min(max),
            2 | 3 => max,
            4 => to_wrap.min(max),
            5 => (to_wrap + 1).min(max),
            6 => to_wrap.saturating_sub(1).min(max),
            7 => rng.below(max + 1),
            _ => rng.below(max.min(64) + 1),
        }
    };
    for _ in 0..nops {
        let ev: Value;
        let choice = rng.below(100);
        if real.w.is_none() && real.r.is_none() {
            // acquire one of the windows
            if choice < 50 {
                ev = acq_w(&mut real)?;
            } else {
                ev = acq_r(&mut real)?;
            }
        } else if real.w.is_some() && (real.r.is_none() && choice < 30) {
            ev = acq_r(&mut real)?;
        } else if real.r.is_some() && (real.w.is_none() && choice < 30) {
            ev = acq_w(&mut real)?;
        } else if real.w.is_some() && (real.r.is_none() || choice < 65) {
            // commit
            let mut w = real.w.take().unwrap();
            let (s, e) = w.verif_range();
            let wl = e - s;
            let to_wrap = cap - (s % cap);
            let kind = rng.below(40);
            if kind == 0 {
                drop(w);
                ev = json!({"op": "dropw", "st": real.st()});
            } else if kind == 2 && wl < cap {
                // fill_from_slice with more samples than the window holds: must be refused
                // (panic) without touching anything outside the window
                let k = (wl + 1 + rng.below(3)).min(cap);
                let produced = real.produced;
                let vals: Vec<T> = (0..k).map(|j| real.val(produced + 900_000 + j as u64)).collect();
                let ok = catch(move || w.fill_from_slice(&vals)).is_ok();
                ev = json!({"op": "fill_refused", "k": k, "accepted": ok, "st": real.st()});
            } else if kind == 1 && wl < cap + 1 {
                // oversized commit: must be refused.
                let (_, _, used, _, _) = real.rs.verif_state();
                let n = cap - used + 1 + rng.below(3);
                let ok = catch(move || w.produce(n, &[])).is_ok();
                ev = json!({"op": "commit_refused", "n": n, "accepted": ok, "st": real.st()});
                writeln!(out, "{ev}").unwrap();
                return Ok(events + 1);
            } else {
                let mut k = pick_len(&mut rng, wl, to_wrap);
                if maxtags > 3 && rng.chance(7, 8) {
                    // tag-heavy: many small commits, so that tags pile up
                    k = k.min(1 + rng.below(8));
                }
                let n = if rng.chance(4, 5) { k } else { rng.below(k + 1) };
                let produced = real.produced;
                let vals: Vec<T> = (0..k).map(|j| real.val(produced + j as u64 + 1)).collect();
                let mut tg: Vec<(usize, u64)> = Vec::new();
                if n > 0 && (rng.chance(1, 2) || maxtags > 3) {
                    let nt = 1 + rng.below(maxtags);
                    for _ in 0..nt {
                        let p = match rng.below(6) {
                            0 => 0,
                            1 => n - 1,
                            2 => to_wrap.min(n - 1),
                            3 => to_wrap.saturating_sub(1).min(n - 1),
                            4 if !tg.is_empty() => tg[tg.len() - 1].0,
                            _ => rng.below(n),
                        };
                        tg.push((p, tg.len() as u64 + 1));
                    }
                }
                let tags: Vec<Tag> = tg.iter().map(|(p, o)| tag_for(produced + *p as u64 + 1, *o, *p)).collect();
                let how = rng.below(4);
                let r = catch(move || {
                    // the three ways a block writes into its window
                    match how {
                        0 => w.fill_from_slice(&vals),
                        1 => w.fill_from_iter(vals.iter().copied()),
                        _ => w.slice()[..k].copy_from_slice(&vals),
                    }
                    w.produce(n, &tags);
                });
                if n == 0 {
                    ev = json!({"op": "commit0", "panic": r.is_err(), "st": real.st()});
                } else {
                    real.produced += n as u64;
                    ev = json!({"op": "commit", "k": k, "n": n,
                        "tg": tg.iter().map(|(p, o)| json!([p, o])).collect::<Vec<_>>(),
                        "panic": r.is_err(), "st": real.st()});
                }
            }
        } else {
            // consume
            let (r, _) = real.r.take().unwrap();
            let (s, e) = r.verif_range();
            let rl = e - s;
            let to_wrap = cap - (s % cap);
            let kind = rng.below(40);
            if kind == 0 {
                drop(r);
                ev = json!({"op": "dropr", "st": real.st()});
            } else if kind == 1 {
                let (_, _, used, _, _) = real.rs.verif_state();
                let m = used + 1 + rng.below(3);
                let ok = catch(move || r.consume(m)).is_ok();
                ev = json!({"op": "consume_refused", "m": m, "accepted": ok, "st": real.st()});
                writeln!(out, "{ev}").unwrap();
                return Ok(events + 1);
            } else {
                let mut m = pick_len(&mut rng, rl, to_wrap);
                if maxtags > 3 && rng.chance(7, 8) {
                    m = m.min(rng.below(5));
                }
                let runs = real.runs(r.slice());
                let res = catch(move || r.consume(m));
                ev = json!({"op": "consume", "m": m, "runs": runs, "panic": res.is_err(), "st": real.st()});
            }
        }
        writeln!(out, "{ev}").unwrap();
        events += 1;
        if ev["panic"] == json!(true) {
            return Ok(events);
        }
    }
    Ok(events)
}

fn acq_w<T: Sample>(real: &mut Real<T>) -> Result<Value, String> {
    match catch(|| real.ws.write_buf()) {
        Ok(Ok(w)) => {
            let (s, e) = w.verif_range();
            let len = w.len();
            real.w = Some(w);
            Ok(json!({"op": "acqw", "start": s, "len": e - s, "wlen": len, "st": real.st()}))
        }
        Ok(Err(e)) => Ok(json!({"op": "acqw", "err": format!("{e}"), "panic": true})),
        Err(p) => Ok(json!({"op": "acqw", "err": p, "panic": true})),
    }
}
fn acq_r<T: Sample>(real: &mut Real<T>) -> Result<Value, String> {
    match catch(|| real.rs.read_buf()) {
        Ok(Ok((r, tags))) => {
            let (s, e) = r.verif_range();
            let len = r.len();
            // the window is read through slice() or through iter(), alternately; is_empty() must agree with len()
            let via_iter = real.produced % 2 == 1;
            let runs = match catch(|| if via_iter { real.runs(&r.iter().copied().collect::<Vec<T>>()) } else { real.runs(r.slice()) }) {
                Ok(x) => x,
                Err(p) => return Ok(json!({"op": "acqr", "err": p, "panic": true})),
            };
            if r.is_empty() != (len == 0) {
                return Ok(json!({"op": "acqr", "err": "is_empty() disagrees with len()", "panic": true}));
            }
            let tg: Vec<Value> = tags.iter().map(|t| json!([t.pos(), tag_id(t)])).collect();
            real.r = Some((r, tags));
            Ok(json!({"op": "acqr", "start": s, "len": e - s, "rlen": len, "runs": runs, "tags": tg, "st": real.st()}))
        }
        Ok(Err(e)) => Ok(json!({"op": "acqr", "err": format!("{e}"), "panic": true})),
        Err(p) => Ok(json!({"op": "acqr", "err": p, "panic": true})),
    }
}

/// ring-trace --out FILE --elem N --pages P --seed S --runs R --ops K
pub fn cmd_trace(args: &[String]) -> i32 {
    quiet_panics();
    let out = arg_val(args, "--out").expect("--out");
    let elem = arg_usize(args, "--elem", 1);
    let pages = arg_usize(args, "--pages", 1);
    let seed = arg_usize(args, "--seed", 1) as u64;
    let runs = arg_usize(args, "--runs", 1);
    let ops = arg_usize(args, "--ops", 100);
    let mut f = std::io::BufWriter::new(std::fs::File::create(&out).expect("create"));
    // --bytes overrides --pages (sizes that are not a page multiple)
    let size = arg_usize(args, "--bytes", pages * 4096);
    let mut events = 0;
    for r in 0..runs {
        let s = seed.wrapping_mul(1000).wrapping_add(r as u64);
        let res = match elem {
            1 => trace_run::<u8>(&mut f, size, 251, s, ops),
            2 => trace_run::<u16>(&mut f, size, 65521, s, ops),
            3 => trace_run::<B3>(&mut f, size, 1 << 24, s, ops),
            4 => trace_run::<u32>(&mut f, size, 1 << 30, s, ops),
            8 => trace_run::<u64>(&mut f, size, 1 << 30, s, ops),
            16 => trace_run::<u128>(&mut f, size, 1 << 30, s, ops),
            1024 => trace_run::<[u64; 128]>(&mut f, size, 1 << 30, s, ops),
            _ => Err(format!("unsupported element size {elem}")),
        };
        match res {
            Ok(n) => events += n,
            Err(e) => {
                eprintln!("ring-trace: {e}");
                return 2;
            }
        }
    }
    f.flush().unwrap();
    println!("{}", json!({"events": events, "runs": runs}));
    0
}

// ---------------------------------------------------------------- Repeat

/// repeat-replay --paths FILE: each line is a path of {from, act, to} steps of
/// specs/Repeat.tla; replayed on the real rustradio::Repeat.
pub fn cmd_repeat_replay(args: &[String]) -> i32 {
    quiet_panics();
    let file = arg_val(args, "--paths").expect("--paths");
    let f = std::io::BufReader::new(std::fs::File::open(&file).expect("open paths"));
    let (mut paths, mut steps) = (0usize, 0usize);
    let mut fails: Vec<Value> = Vec::new();
    for (idx, line) in f.lines().enumerate() {
        let line = line.unwrap();
        if line.trim().is_empty() {
            continue;
        }
        let st: Vec<Value> = serde_json::from_str(&line).expect("json");
        paths += 1;
        let start = st[0]["from"]["rem"].as_i64().unwrap();
        let mut r = if start < 0 { rustradio::Repeat::infinite() } else { rustradio::Repeat::finite(start as u64) };
        for (i, s) in st.iter().enumerate() {
            let act = s["act"].as_str().unwrap();
            let want = s["to"]["last"].as_str().unwrap().to_string();
            let got = match act {
                "again" => catch(|| r.again()).map(|b| b.to_string()),
                "done" => catch(|| r.done()).map(|b| b.to_string()),
                _ => catch(|| r.count()).map(|c| c.to_string()),
            };
            steps += 1;
            let count_ok = catch(|| r.count()).map(|c| c as i64 == s["to"]["count"].as_i64().unwrap()).unwrap_or(false);
            let rem = s["to"]["rem"].as_i64().unwrap();
            let done_ok = catch(|| r.done()).map(|d| d == (rem == 0)).unwrap_or(false);
            let ok = matches!(&got, Ok(g) if *g == want) && count_ok && done_ok;
            if !ok {
                fails.push(json!({"path": idx, "step": i, "act": act, "start": start, "want": want,
                    "got": match got { Ok(g) => g, Err(p) => format!("panic: {p}") }, "count_ok": count_ok, "done_ok": done_ok}));
                break;
            }
        }
    }
    println!("{}", json!({"paths": paths, "steps": steps, "nfail": fails.len(), "fails": fails.iter().take(10).collect::<Vec<_>>()}));
    0
}
