//! Harness-defined blocks built with #[derive(rustradio_macros::Block)] (C19):
//! sync / sync_tag blocks with 1..3 inputs and outputs, default / into fields,
//! and a non-sync block with a packet output for the generated constructor.
//! Each output is a function that identifies its inputs, so wiring is visible.
use crate::bench::*;
use crate::common::*;
use crate::graphs::Big;
use rustradio::block::{Block, BlockRet};
use rustradio::stream::{NCWriteStream, ReadStream, Tag, WriteStream};
use rustradio::Result;
use serde_json::Value;
use std::borrow::Cow;

fn v(x: Big) -> u64 {
    x.val().unwrap_or(9_999_999)
}

#[derive(rustradio_macros::Block)]
#[rustradio(new, sync)]
pub struct U11 {
    #[rustradio(in)]
    a: ReadStream<Big>,
    #[rustradio(out)]
    o: WriteStream<Big>,
}
impl U11 {
    fn process_sync(&self, a: Big) -> Big {
        Big::of(v(a) + 1)
    }
}

#[derive(rustradio_macros::Block)]
#[rustradio(new, sync)]
pub struct U21 {
    #[rustradio(in)]
    a: ReadStream<Big>,
    #[rustradio(in)]
    b: ReadStream<Big>,
    #[rustradio(out)]
    o: WriteStream<Big>,
    #[rustradio(default)]
    count: u64,
    #[rustradio(into)]
    label: String,
    scale: u64,
}
impl U21 {
    fn process_sync(&mut self, a: Big, b: Big) -> Big {
        self.count += 1;
        let _ = &self.label;
        Big::of(v(a) + self.scale * v(b))
    }
}

#[derive(rustradio_macros::Block)]
#[rustradio(new, sync)]
pub struct U32 {
    #[rustradio(in)]
    a: ReadStream<Big>,
    #[rustradio(in)]
    b: ReadStream<Big>,
    #[rustradio(in)]
    c: ReadStream<Big>,
    #[rustradio(out)]
    o1: WriteStream<Big>,
    #[rustradio(out)]
    o2: WriteStream<Big>,
}
impl U32 {
    fn process_sync(&self, a: Big, b: Big, c: Big) -> (Big, Big) {
        (Big::of(v(a) + 10 * v(b) + 100 * v(c)), Big::of(v(c) + 10 * v(a)))
    }
}

#[derive(rustradio_macros::Block)]
#[rustradio(new, sync)]
pub struct U13 {
    #[rustradio(in)]
    a: ReadStream<u8>,
    #[rustradio(out)]
    o1: WriteStream<u8>,
    #[rustradio(out)]
    o2: WriteStream<u32>,
    #[rustradio(out)]
    o3: WriteStream<u8>,
}
impl U13 {
    fn process_sync(&self, a: u8) -> (u8, u32, u8) {
        (a, a as u32 + 1000, a ^ 0xff)
    }
}

/// sync_tag with two inputs: forwards the tags of the SECOND input.
#[derive(rustradio_macros::Block)]
#[rustradio(new, sync_tag)]
pub struct T21 {
    #[rustradio(in)]
    a: ReadStream<Big>,
    #[rustradio(in)]
    b: ReadStream<Big>,
    #[rustradio(out)]
    o: WriteStream<Big>,
}
impl T21 {
    fn process_sync_tags<'a>(&mut self, a: Big, _ta: &'a [Tag], b: Big, tb: &'a [Tag]) -> (Big, Cow<'a, [Tag]>) {
        (Big::of(v(a) + 10 * v(b)), Cow::Borrowed(tb))
    }
}

/// Not sync: generated new() with a packet output and a stream output.
#[derive(rustradio_macros::Block)]
#[rustradio(new)]
pub struct P12 {
    #[rustradio(in)]
    src: ReadStream<u8>,
    #[rustradio(out)]
    pkts: NCWriteStream<Vec<u8>>,
    #[rustradio(out)]
    copy: WriteStream<u8>,
    #[rustradio(default)]
    pending: Vec<u8>,
}
impl Block for P12 {
    fn work(&mut self) -> Result<BlockRet> {
        let (i, _tags) = self.src.read_buf()?;
        if i.is_empty() {
            return Ok(BlockRet::WaitForStream(&self.src, 1));
        }
        let mut o = self.copy.write_buf()?;
        if o.is_empty() {
            return Ok(BlockRet::WaitForStream(&self.copy, 1));
        }
        let n = i.len().min(o.len());
        for k in 0..n {
            let s = i.slice()[k];
            o.slice()[k] = s;
            self.pending.push(s);
            if self.pending.len() == 2 {
                self.pkts.push(std::mem::take(&mut self.pending), &[]);
            }
        }
        i.consume(n);
        o.produce(n, &[]);
        Ok(BlockRet::Again)
    }
}

fn ring_in<T: Val>(spec: &Value, port: usize, rng: &mut Rng) -> (Box<dyn InPort>, ReadStream<T>) {
    crate::blocks::ring_in::<T>(spec, port, rng)
}

pub fn make(spec: &Value, rng: &mut Rng) -> std::result::Result<Rig, String> {
    let name = spec["block"].as_str().unwrap_or("");
    match name {
        "U11" => {
            let (i, r) = ring_in::<Big>(spec, 0, rng);
            let (b, o) = U11::new(r);
            Ok(Rig { block: Box::new(b), ins: vec![i], outs: vec![Box::new(OutRing::new(o))] })
        }
        "U21" => {
            let (i1, r1) = ring_in::<Big>(spec, 0, rng);
            let (i2, r2) = ring_in::<Big>(spec, 1, rng);
            let (b, o) = U21::new(r1, r2, "lbl", 10);
            Ok(Rig { block: Box::new(b), ins: vec![i1, i2], outs: vec![Box::new(OutRing::new(o))] })
        }
        "U32" => {
            let (i1, r1) = ring_in::<Big>(spec, 0, rng);
            let (i2, r2) = ring_in::<Big>(spec, 1, rng);
            let (i3, r3) = ring_in::<Big>(spec, 2, rng);
            let (b, o1, o2) = U32::new(r1, r2, r3);
            Ok(Rig { block: Box::new(b), ins: vec![i1, i2, i3], outs: vec![Box::new(OutRing::new(o1)), Box::new(OutRing::new(o2))] })
        }
        "U13" => {
            let (i, r) = ring_in::<u8>(spec, 0, rng);
            let (b, o1, o2, o3) = U13::new(r);
            Ok(Rig { block: Box::new(b), ins: vec![i], outs: vec![Box::new(OutRing::new(o1)), Box::new(OutRing::new(o2)), Box::new(OutRing::new(o3))] })
        }
        "T21" => {
            let (i1, r1) = ring_in::<Big>(spec, 0, rng);
            let (i2, r2) = ring_in::<Big>(spec, 1, rng);
            let (b, o) = T21::new(r1, r2);
            Ok(Rig { block: Box::new(b), ins: vec![i1, i2], outs: vec![Box::new(OutRing::new(o))] })
        }
        "P12" => {
            let (i, r) = ring_in::<u8>(spec, 0, rng);
            let (b, pk, cp) = P12::new(r);
            Ok(Rig { block: Box::new(b), ins: vec![i], outs: vec![Box::new(OutPkt::new(pk)), Box::new(OutRing::new(cp))] })
        }
        _ => Err(format!("unknown block {name}")),
    }
}
