//! Harness-defined blocks built with #[derive(rustradio_macros::Block)] (C19).
use crate::bench::*;
use crate::common::*;
use serde_json::Value;

pub fn make(spec: &Value, _rng: &mut Rng) -> Result<Rig, String> {
    Err(format!("unknown block {}", spec["block"]))
}
