//! Drip-feed block bench (C08 C09 C10 C12 C19 C15): one block under test,
//! the harness owns the far ends of all its streams and plays the environment
//! of specs/BlockContract.tla: Feed, Drain, CloseIn, DropOut, Work. Every
//! action is logged as one ndjson event for validation by TLC.
use crate::common::*;
use crate::graphs::Big;
use rustradio::block::{Block, BlockRet};
use rustradio::stream::{
    NCReadStream, NCWriteStream, ReadStream, StreamWait, Tag, TagValue, WriteStream, new_nocopy_stream, new_stream,
};
use rustradio::{Complex, Float};
use serde_json::{Value, json};

// ------------------------------------------------------------------ values

/// Logged instead of a number when a sample is not a small exact integer.
pub const NONUM: i64 = -1_000_000_007;

/// A sample type the bench can generate, and log losslessly as small ints.
pub trait Val: Copy + Send + Sync + 'static {
    /// Lossless encoding as 31-bit-safe integers (bit pattern limbs).
    fn limbs(&self) -> Vec<i64>;
    /// Numeric value if it is an exactly representable small integer.
    fn num(&self) -> Option<i64>;
    /// Generate input sample `i` of the given kind.
    fn generate(kind: &str, i: usize, rng: &mut Rng) -> Self;
}
fn gen_int(kind: &str, i: usize, rng: &mut Rng) -> i64 {
    if let Some(v) = kind.strip_prefix("lit:") {
        return v.parse().unwrap_or(0);
    }
    match kind {
        "bits" => (rng.next() & 1) as i64,
        "bits_runs" => {
            // long runs of ones/zeros (stuffing-heavy)
            if rng.below(6) == 0 { 0 } else { 1 }
        }
        "ramp" => (i as i64) + 1,
        "small" => rng.below(7) as i64 - 3,
        "pos" => 1 + rng.below(50) as i64,
        // a few byte values incl. non-bits (symbol streams)
        "smallbytes" => [0, 1, 2, 3, 255, 1, 0, 1][rng.below(8)],
        "bytes" => match rng.below(6) {
            0 => 0,
            1 => 255,
            2 => 127,
            3 => 128,
            _ => rng.below(256) as i64,
        },
        "nrz" => {
            // random NRZ symbols, 4 samples per symbol, amplitude varying per
            // sample so that a shifted sampling instant is visible
            let sym = (i / 4) as u64;
            let bit = (sym.wrapping_mul(0x9E3779B97F4A7C15) >> 61) & 1;
            (if bit == 1 { 1 } else { -1 }) * (1 + (i % 7) as i64)
        }
        "glitchy" => {
            // NRZ at nominally 4 samples per symbol with runs of 1, 3, 4 and 5 equal-sign samples
            // in pseudo-random order (glitches and stretched symbols): boundaries move around
            let mut pos = 0usize;
            let mut sign = 1i64;
            let mut k = 0u64;
            loop {
                let r = (k.wrapping_mul(0x9E3779B97F4A7C15).wrapping_add(0x1234567) >> 59) as usize;
                let run = [4, 4, 1, 5, 3, 4, 5, 1][r % 8];
                if i < pos + run {
                    break sign * (1 + (i % 5) as i64);
                }
                pos += run;
                sign = -sign;
                k += 1;
            }
        }
        "sqramp" => {
            // square wave whose amplitude differs from sample to sample, so a
            // shifted sampling instant is visible in the value
            (if (i / 4) % 2 == 0 { 1 } else { -1 }) * (1 + (i % 7) as i64)
        }
        "square" => {
            // +-1 square wave with period 8 (clock recovery blocks)
            if (i / 4) % 2 == 0 { 1 } else { -1 }
        }
        _ => rng.below(100) as i64,
    }
}
impl Val for u8 {
    fn limbs(&self) -> Vec<i64> {
        vec![*self as i64]
    }
    fn num(&self) -> Option<i64> {
        Some(*self as i64)
    }
    fn generate(kind: &str, i: usize, rng: &mut Rng) -> Self {
        let v = gen_int(kind, i, rng);
        (v.rem_euclid(256)) as u8
    }
}
impl Val for u32 {
    fn limbs(&self) -> Vec<i64> {
        vec![(*self >> 16) as i64, (*self & 0xffff) as i64]
    }
    fn num(&self) -> Option<i64> {
        if *self < (1 << 30) { Some(*self as i64) } else { None }
    }
    fn generate(kind: &str, i: usize, rng: &mut Rng) -> Self {
        gen_int(kind, i, rng).unsigned_abs() as u32
    }
}
impl Val for i32 {
    fn limbs(&self) -> Vec<i64> {
        vec![((*self as u32) >> 16) as i64, ((*self as u32) & 0xffff) as i64]
    }
    fn num(&self) -> Option<i64> {
        if self.abs() < (1 << 30) { Some(*self as i64) } else { None }
    }
    fn generate(kind: &str, i: usize, rng: &mut Rng) -> Self {
        gen_int(kind, i, rng) as i32
    }
}
fn f_limbs(f: Float) -> Vec<i64> {
    let b = f.to_bits();
    vec![(b >> 16) as i64, (b & 0xffff) as i64]
}
thread_local! {
    /// Output floats are logged as round(value * scale) when that is within
    /// 1e-3 of an integer (RTL-SDR decode: scale 125).
    pub static NUM_SCALE: std::cell::Cell<Float> = const { std::cell::Cell::new(1.0) };
    /// Outputs that are integers up to floating-point rounding (FFT filters on
    /// integer inputs) are logged as the nearest integer if within 1e-3.
    pub static NUM_ROUND: std::cell::Cell<bool> = const { std::cell::Cell::new(false) };
    /// Data of the last source block built (sources have no input ports).
    pub static SRC_DATA: std::cell::RefCell<Vec<i64>> = const { std::cell::RefCell::new(Vec::new()) };
}
fn f_num(f: Float) -> Option<i64> {
    let s = NUM_SCALE.with(|c| c.get());
    if s != 1.0 || NUM_ROUND.with(|c| c.get()) {
        let x = f * s;
        return if x.is_finite() && (x - x.round()).abs() < 1e-3 && x.abs() < 16_000_000.0 { Some(x.round() as i64) } else { None };
    }
    if f.is_finite() && f.fract() == 0.0 && f.abs() < 16_000_000.0 { Some(f as i64) } else { None }
}
fn gen_float(kind: &str, i: usize, rng: &mut Rng) -> Float {
    match kind {
        "special" => match rng.below(8) {
            0 => Float::NAN,
            1 => Float::INFINITY,
            2 => Float::NEG_INFINITY,
            3 => 0.0,
            4 => -0.0,
            5 => Float::MAX,
            6 => Float::MIN_POSITIVE,
            _ => rng.below(7) as Float - 3.0,
        },
        "frac" => (rng.below(2001) as Float - 1000.0) / 64.0,
        // k/8 for k in -10..10 (beyond +-1 saturates), exact products with 32767
        "eighths" => (rng.below(21) as Float - 10.0) / 8.0,
        _ => gen_int(kind, i, rng) as Float,
    }
}
impl Val for Float {
    fn limbs(&self) -> Vec<i64> {
        f_limbs(*self)
    }
    fn num(&self) -> Option<i64> {
        f_num(*self)
    }
    fn generate(kind: &str, i: usize, rng: &mut Rng) -> Self {
        gen_float(kind, i, rng)
    }
}
impl Val for Complex {
    fn limbs(&self) -> Vec<i64> {
        let mut v = f_limbs(self.re);
        v.extend(f_limbs(self.im));
        v
    }
    fn num(&self) -> Option<i64> {
        // Encoded as re * 4096 + im when both are small non-negative integers:
        // used only by specs that know about it.
        match (f_num(self.re), f_num(self.im)) {
            (Some(a), Some(b)) if (-2048..2048).contains(&a) && (-2048..2048).contains(&b) => Some((a + 2048) * 4096 + (b + 2048)),
            _ => None,
        }
    }
    fn generate(kind: &str, i: usize, rng: &mut Rng) -> Self {
        if let Some(v) = kind.strip_prefix("litc:") {
            let mut it = v.split(',').map(|x| x.parse::<Float>().unwrap_or(0.0));
            return Complex::new(it.next().unwrap_or(0.0), it.next().unwrap_or(0.0));
        }
        Complex::new(gen_float(kind, i, rng), gen_float(kind, i + 7919, rng))
    }
}
impl Val for Big {
    fn limbs(&self) -> Vec<i64> {
        match self.val() {
            Some(v) => vec![(v >> 16) as i64, (v & 0xffff) as i64],
            None => vec![-1, -1],
        }
    }
    fn num(&self) -> Option<i64> {
        self.val().map(|v| v as i64)
    }
    fn generate(kind: &str, i: usize, rng: &mut Rng) -> Self {
        Big::of(gen_int(kind, i, rng).unsigned_abs())
    }
}

fn tagval_json(v: &TagValue) -> Value {
    match v {
        TagValue::String(s) => json!(format!("S:{s}")),
        TagValue::Float(f) => json!(format!("F:{}", f.to_bits())),
        TagValue::Bool(b) => json!(format!("B:{b}")),
        TagValue::U64(u) => json!(format!("U:{u}")),
    }
}

// ------------------------------------------------------------------- ports

pub trait InPort {
    fn id(&self) -> usize;
    /// Samples buffered in the stream, not yet consumed by the block.
    fn avail(&self) -> usize;
    fn space(&self) -> usize;
    /// Input not yet fed.
    fn left(&self) -> usize;
    fn total(&self) -> usize;
    /// Feed up to k samples (with their tags). Returns how many were fed.
    fn feed(&mut self, k: usize) -> usize;
    fn close(&mut self);
    fn closed(&self) -> bool;
    fn refcount(&self) -> usize;
    /// Input values as small ints (None where not exactly representable).
    fn nums(&self) -> Vec<Option<i64>>;
    /// Input tags: (absolute index, key, value).
    fn tags(&self) -> Vec<Value>;
    fn is_packet(&self) -> bool {
        false
    }
}
pub trait OutPort {
    fn id(&self) -> usize;
    /// Samples committed by the block, not yet drained by the bench.
    fn avail(&self) -> usize;
    fn space(&self) -> usize;
    /// Everything newly committed since the last call: (limbs per sample, nums,
    /// tags as [abs index, key, val]), without consuming.
    fn peek_new(&mut self) -> (Vec<Vec<i64>>, Vec<Option<i64>>, Vec<Value>);
    fn drain(&mut self, k: usize) -> usize;
    fn drop_reader(&mut self);
    fn dropped(&self) -> bool;
    fn refcount(&self) -> usize;
    fn produced(&self) -> usize;
    fn is_packet(&self) -> bool {
        false
    }
}

pub struct InRing<T: Val> {
    ws: Option<WriteStream<T>>,
    id: usize,
    data: Vec<T>,
    tags: Vec<(usize, String, TagValue)>,
    fed: usize,
}
impl<T: Val> InRing<T> {
    pub fn new(data: Vec<T>, tags: Vec<(usize, String, TagValue)>) -> (Self, ReadStream<T>) {
        let (ws, rs) = new_stream::<T>();
        let id = StreamWait::verif_id(&ws);
        (Self { ws: Some(ws), id, data, tags, fed: 0 }, rs)
    }
}
impl<T: Val> InPort for InRing<T> {
    fn id(&self) -> usize {
        self.id
    }
    fn avail(&self) -> usize {
        // Once the write side is dropped the backlog is known from the
        // consume events of the block (ring events carry `used`).
        self.ws.as_ref().map(|w| w.verif_state().2).unwrap_or_else(|| USED.with(|u| *u.borrow().get(&self.id).unwrap_or(&0)))
    }
    fn space(&self) -> usize {
        self.ws.as_ref().map(|w| w.free()).unwrap_or(0)
    }
    fn left(&self) -> usize {
        self.data.len() - self.fed
    }
    fn total(&self) -> usize {
        self.data.len()
    }
    fn feed(&mut self, k: usize) -> usize {
        let Some(ws) = self.ws.as_ref() else { return 0 };
        let mut w = ws.write_buf().unwrap();
        let n = k.min(w.len()).min(self.data.len() - self.fed);
        if n == 0 {
            return 0;
        }
        w.slice()[..n].copy_from_slice(&self.data[self.fed..self.fed + n]);
        let tags: Vec<Tag> = self
            .tags
            .iter()
            .filter(|(p, _, _)| *p >= self.fed && *p < self.fed + n)
            .map(|(p, k, v)| Tag::new(p - self.fed, k.clone(), v.clone()))
            .collect();
        w.produce(n, &tags);
        self.fed += n;
        n
    }
    fn close(&mut self) {
        if let Some(w) = self.ws.as_ref() {
            let used = w.verif_state().2;
            USED.with(|u| u.borrow_mut().insert(self.id, used));
        }
        self.ws = None;
    }
    fn closed(&self) -> bool {
        self.ws.is_none()
    }
    fn refcount(&self) -> usize {
        self.ws.as_ref().map(|w| w.verif_refcount()).unwrap_or(0)
    }
    fn nums(&self) -> Vec<Option<i64>> {
        self.data.iter().map(|v| v.num()).collect()
    }
    fn tags(&self) -> Vec<Value> {
        self.tags.iter().map(|(p, k, v)| json!([p, k, tagval_json(v)])).collect()
    }
}

pub struct OutRing<T: Val> {
    rs: Option<ReadStream<T>>,
    id: usize,
    seen: usize,
    drained: usize,
}
impl<T: Val> OutRing<T> {
    pub fn new(rs: ReadStream<T>) -> Self {
        let id = StreamWait::verif_id(&rs);
        Self { rs: Some(rs), id, seen: 0, drained: 0 }
    }
}
impl<T: Val> OutPort for OutRing<T> {
    fn id(&self) -> usize {
        self.id
    }
    fn avail(&self) -> usize {
        self.rs.as_ref().map(|r| r.verif_state().2).unwrap_or(0)
    }
    fn space(&self) -> usize {
        self.rs.as_ref().map(|r| { let s = r.verif_state(); s.3 - s.2 }).unwrap_or(0)
    }
    fn peek_new(&mut self) -> (Vec<Vec<i64>>, Vec<Option<i64>>, Vec<Value>) {
        let Some(rs) = self.rs.as_ref() else { return (vec![], vec![], vec![]) };
        let (r, tags) = rs.read_buf().unwrap();
        let skip = self.seen - self.drained;
        let new: Vec<T> = r.slice()[skip..].to_vec();
        let tg: Vec<Value> = tags
            .iter()
            .filter(|t| t.pos() >= skip)
            .map(|t| json!([self.drained + t.pos(), t.key(), tagval_json(t.val())]))
            .collect();
        self.seen = self.drained + r.len();
        (new.iter().map(|v| v.limbs()).collect(), new.iter().map(|v| v.num()).collect(), tg)
    }
    fn drain(&mut self, k: usize) -> usize {
        let Some(rs) = self.rs.as_ref() else { return 0 };
        let (r, _) = rs.read_buf().unwrap();
        let n = k.min(r.len()).min(self.seen - self.drained);
        r.consume(n);
        self.drained += n;
        n
    }
    fn drop_reader(&mut self) {
        self.rs = None;
    }
    fn dropped(&self) -> bool {
        self.rs.is_none()
    }
    fn refcount(&self) -> usize {
        self.rs.as_ref().map(|r| r.verif_refcount()).unwrap_or(0)
    }
    fn produced(&self) -> usize {
        self.seen
    }
}

/// Packet input: each element of `data` is one packet of samples.
pub struct InPkt<T: Val> {
    ws: Option<NCWriteStream<Vec<T>>>,
    id: usize,
    data: Vec<Vec<T>>,
    fed: usize,
    probe: NCReadStreamProbe,
}
/// Queue length of a packet stream cannot be read from the write side; the
/// bench counts pushes and learns pops from the event hook ("ret nc_pop").
#[derive(Default)]
pub struct NCReadStreamProbe {
    pub pushed: usize,
}
impl<T: Val> InPkt<T> {
    pub fn new(data: Vec<Vec<T>>) -> (Self, NCReadStream<Vec<T>>) {
        let (ws, rs) = new_nocopy_stream::<Vec<T>>();
        let id = StreamWait::verif_id(&ws);
        (Self { ws: Some(ws), id, data, fed: 0, probe: Default::default() }, rs)
    }
}
thread_local! {
    /// last known `used` per ring id (from ring events), for closed inputs.
    pub static USED: std::cell::RefCell<std::collections::HashMap<usize, usize>> = std::cell::RefCell::new(Default::default());
}
thread_local! {
    /// pops observed per packet-stream id (filled by the bench from events).
    pub static POPS: std::cell::RefCell<std::collections::HashMap<usize, usize>> = std::cell::RefCell::new(Default::default());
}
impl<T: Val> InPort for InPkt<T> {
    fn id(&self) -> usize {
        self.id
    }
    fn avail(&self) -> usize {
        self.probe.pushed - POPS.with(|p| *p.borrow().get(&self.id).unwrap_or(&0))
    }
    fn space(&self) -> usize {
        1 << 20
    }
    fn left(&self) -> usize {
        self.data.len() - self.fed
    }
    fn total(&self) -> usize {
        self.data.len()
    }
    fn feed(&mut self, k: usize) -> usize {
        let Some(ws) = self.ws.as_ref() else { return 0 };
        let n = k.min(self.data.len() - self.fed);
        for i in 0..n {
            ws.push(self.data[self.fed + i].clone(), &[]);
        }
        self.fed += n;
        self.probe.pushed += n;
        n
    }
    fn close(&mut self) {
        self.ws = None;
    }
    fn closed(&self) -> bool {
        self.ws.is_none()
    }
    fn refcount(&self) -> usize {
        if self.ws.is_some() { 2 } else { 0 }
    }
    fn nums(&self) -> Vec<Option<i64>> {
        // flattened with -1 as packet separator
        let mut v = Vec::new();
        for p in &self.data {
            v.push(Some(-1));
            v.extend(p.iter().map(|x| x.num()));
        }
        v
    }
    fn tags(&self) -> Vec<Value> {
        vec![]
    }
    fn is_packet(&self) -> bool {
        true
    }
}
/// Output port for a stream of Strings (DebugFilter): logged as byte packets.
pub struct OutStr {
    rs: Option<NCReadStream<String>>,
    id: usize,
    taken: usize,
}
impl OutStr {
    pub fn new(rs: NCReadStream<String>) -> Self {
        let id = StreamWait::verif_id(&rs);
        Self { rs: Some(rs), id, taken: 0 }
    }
}
impl OutPort for OutStr {
    fn id(&self) -> usize {
        self.id
    }
    fn avail(&self) -> usize {
        self.rs.as_ref().map(|r| r.verif_len()).unwrap_or(0)
    }
    fn space(&self) -> usize {
        1 << 20
    }
    fn peek_new(&mut self) -> (Vec<Vec<i64>>, Vec<Option<i64>>, Vec<Value>) {
        let Some(rs) = self.rs.as_ref() else { return (vec![], vec![], vec![]) };
        let mut out = Vec::new();
        let mut nums = Vec::new();
        while let Some((p, _)) = rs.pop() {
            let b = p.as_bytes();
            let mut l = vec![b.len() as i64];
            l.extend(b.iter().map(|x| *x as i64));
            out.push(l);
            nums.push(Some(-1));
            nums.extend(b.iter().map(|x| Some(*x as i64)));
            self.taken += 1;
        }
        (out, nums, vec![])
    }
    fn drain(&mut self, _k: usize) -> usize {
        0
    }
    fn drop_reader(&mut self) {
        self.rs = None;
    }
    fn dropped(&self) -> bool {
        self.rs.is_none()
    }
    fn refcount(&self) -> usize {
        if self.rs.is_some() { 2 } else { 0 }
    }
    fn produced(&self) -> usize {
        self.taken
    }
    fn is_packet(&self) -> bool {
        true
    }
}
pub struct OutPkt<T: Val> {
    rs: Option<NCReadStream<Vec<T>>>,
    id: usize,
    taken: usize,
}
impl<T: Val> OutPkt<T> {
    pub fn new(rs: NCReadStream<Vec<T>>) -> Self {
        let id = StreamWait::verif_id(&rs);
        Self { rs: Some(rs), id, taken: 0 }
    }
}
impl<T: Val> OutPort for OutPkt<T> {
    fn id(&self) -> usize {
        self.id
    }
    fn avail(&self) -> usize {
        self.rs.as_ref().map(|r| r.verif_len()).unwrap_or(0)
    }
    fn space(&self) -> usize {
        1 << 20
    }
    /// Packets are popped when peeked (there is no non-consuming read); each
    /// packet is logged as [len, limbs...].
    fn peek_new(&mut self) -> (Vec<Vec<i64>>, Vec<Option<i64>>, Vec<Value>) {
        let Some(rs) = self.rs.as_ref() else { return (vec![], vec![], vec![]) };
        let mut out = Vec::new();
        let mut nums = Vec::new();
        while let Some((p, _)) = rs.pop() {
            let mut l = vec![p.len() as i64];
            for x in &p {
                l.extend(x.limbs());
            }
            out.push(l);
            nums.push(Some(-1));
            nums.extend(p.iter().map(|x| x.num()));
            self.taken += 1;
        }
        (out, nums, vec![])
    }
    fn drain(&mut self, _k: usize) -> usize {
        0
    }
    fn drop_reader(&mut self) {
        self.rs = None;
    }
    fn dropped(&self) -> bool {
        self.rs.is_none()
    }
    fn refcount(&self) -> usize {
        if self.rs.is_some() { 2 } else { 0 }
    }
    fn produced(&self) -> usize {
        self.taken
    }
    fn is_packet(&self) -> bool {
        true
    }
}

/// Stands in for a block that has been dropped (see drop_flush).
#[derive(rustradio_macros::Block)]
#[rustradio(new)]
pub struct Gone {
    #[rustradio(default)]
    calls: usize,
}
impl Block for Gone {
    fn work(&mut self) -> rustradio::Result<BlockRet> {
        self.calls += 1;
        Ok(BlockRet::EOF)
    }
}

pub struct Rig {
    pub block: Box<dyn Block + Send>,
    pub ins: Vec<Box<dyn InPort>>,
    pub outs: Vec<Box<dyn OutPort>>,
}

// ----------------------------------------------------------------- running

fn verdict_json(r: &Result<rustradio::Result<BlockRet<'_>>, String>, ins: &[Box<dyn InPort>], outs: &[Box<dyn OutPort>]) -> Value {
    match r {
        Err(p) => json!({"kind": "panic", "msg": p.chars().take(160).collect::<String>()}),
        Ok(Err(e)) => json!({"kind": "err", "msg": format!("{e}").chars().take(160).collect::<String>()}),
        Ok(Ok(BlockRet::Again)) => json!({"kind": "again"}),
        Ok(Ok(BlockRet::Pending)) => json!({"kind": "pending"}),
        Ok(Ok(BlockRet::EOF)) => json!({"kind": "eof"}),
        Ok(Ok(BlockRet::WaitForFunc(_))) => json!({"kind": "waitfunc"}),
        Ok(Ok(BlockRet::WaitForStream(s, need))) => {
            let id = s.verif_id();
            let mut side = "unknown";
            let mut idx = 0;
            for (i, p) in ins.iter().enumerate() {
                if p.id() == id {
                    side = "in";
                    idx = i + 1;
                }
            }
            for (j, p) in outs.iter().enumerate() {
                if p.id() == id {
                    side = "out";
                    idx = j + 1;
                }
            }
            json!({"kind": "wait", "side": side, "idx": idx, "need": need})
        }
    }
}

fn absorb_events() {
    for l in rustradio::verif::trace_drain() {
        if l.contains("\"ev\":\"consume\"") {
            if let Ok(v) = serde_json::from_str::<Value>(&l) {
                let m = v["m"].as_u64().unwrap_or(0) as usize;
                USED.with(|u| u.borrow_mut().insert(m, v["used"].as_u64().unwrap_or(0) as usize));
            }
        }
        if l.contains("\"ev\":\"ret\",\"op\":\"nc_pop\"") && l.contains("\"some\":true") {
            if let Ok(v) = serde_json::from_str::<Value>(&l) {
                let m = v["m"].as_u64().unwrap_or(0) as usize;
                POPS.with(|p| *p.borrow_mut().entry(m).or_insert(0) += 1);
            }
        }
    }
}

/// One work() call, logged.
pub fn do_work(rig: &mut Rig, log: &mut Vec<Value>) -> Value {
    let ab: Vec<usize> = rig.ins.iter().map(|p| p.avail()).collect();
    let sb: Vec<usize> = rig.outs.iter().map(|p| p.space()).collect();
    let ob: Vec<usize> = rig.outs.iter().map(|p| p.avail()).collect();
    let rcb: Vec<usize> = rig.ins.iter().map(|p| p.refcount()).chain(rig.outs.iter().map(|p| p.refcount())).collect();
    let block = &mut rig.block;
    let res = catch(|| block.work());
    let v = verdict_json(&res, &rig.ins, &rig.outs);
    drop(res);
    absorb_events();
    let aa: Vec<usize> = rig.ins.iter().map(|p| p.avail()).collect();
    let consumed: Vec<i64> = ab.iter().zip(aa.iter()).map(|(b, a)| *b as i64 - *a as i64).collect();
    let rca: Vec<usize> = rig.ins.iter().map(|p| p.refcount()).chain(rig.outs.iter().map(|p| p.refcount())).collect();
    let mut produced = Vec::new();
    let mut newv = Vec::new();
    let mut newn = Vec::new();
    let mut newt = Vec::new();
    let panicked = v["kind"] == "panic";
    for (j, p) in rig.outs.iter_mut().enumerate() {
        // After a panic inside work() the streams may be poisoned: do not touch them.
        let (l, n, t) = if panicked { (vec![], vec![], vec![]) } else { catch(|| p.peek_new()).unwrap_or_default() };
        let pr = if p.is_packet() { l.len() as i64 } else { p.avail() as i64 - ob[j] as i64 };
        produced.push(pr);
        newv.push(l);
        newn.push(n.iter().map(|x| json!(x.unwrap_or(NONUM))).collect::<Vec<_>>());
        newt.push(t);
    }
    let block = &mut rig.block;
    let eof = catch(|| block.eof()).unwrap_or(false);
    let ev = json!({"ev": "work", "avail": ab, "space": sb, "consumed": consumed, "produced": produced,
        "verdict": v, "rc_same": rcb == rca, "out": newv, "outn": newn, "tags": newt, "eof": eof});
    log.push(ev.clone());
    ev
}

/// Environment actions of a schedule.
pub fn do_env(rig: &mut Rig, act: &Value, log: &mut Vec<Value>) {
    let op = act["op"].as_str().unwrap();
    match op {
        "feed" => {
            let i = act["i"].as_u64().unwrap_or(1) as usize - 1;
            let k = act["k"].as_u64().unwrap() as usize;
            let n = rig.ins[i].feed(k);
            log.push(json!({"ev": "feed", "i": i + 1, "k": n}));
        }
        "feed_to" => {
            // feed until `a` samples are buffered on input i
            let i = act["i"].as_u64().unwrap_or(1) as usize - 1;
            let a = act["a"].as_u64().unwrap() as usize;
            let have = rig.ins[i].avail();
            let n = if a > have { rig.ins[i].feed(a - have) } else { 0 };
            log.push(json!({"ev": "feed", "i": i + 1, "k": n}));
        }
        "drain" => {
            let j = act["j"].as_u64().unwrap_or(1) as usize - 1;
            let k = act["k"].as_u64().unwrap() as usize;
            let n = rig.outs[j].drain(k);
            log.push(json!({"ev": "drain", "j": j + 1, "k": n}));
        }
        "drain_to" => {
            // drain until `f` slots are free on output j (never un-drains)
            let j = act["j"].as_u64().unwrap_or(1) as usize - 1;
            let f = act["f"].as_u64().unwrap() as usize;
            let free = rig.outs[j].space();
            let n = if f > free { rig.outs[j].drain(f - free) } else { 0 };
            log.push(json!({"ev": "drain", "j": j + 1, "k": n}));
        }
        "close" => {
            let i = act["i"].as_u64().unwrap_or(1) as usize - 1;
            rig.ins[i].close();
            log.push(json!({"ev": "close", "i": i + 1}));
        }
        "feed_all" => {
            // every input gets as much as fits (hand-written schedules for any arity)
            for (i, p) in rig.ins.iter_mut().enumerate() {
                let n = p.feed(usize::MAX >> 1);
                log.push(json!({"ev": "feed", "i": i + 1, "k": n}));
            }
        }
        "close_all_if_done" => {
            for (i, p) in rig.ins.iter_mut().enumerate() {
                if p.left() == 0 && !p.closed() {
                    p.close();
                    log.push(json!({"ev": "close", "i": i + 1}));
                }
            }
        }
        "close_if_done" => {
            // close the input only once all of its data has been delivered (hand-written schedules)
            let i = act["i"].as_u64().unwrap_or(1) as usize - 1;
            if rig.ins[i].left() == 0 && !rig.ins[i].closed() {
                rig.ins[i].close();
                log.push(json!({"ev": "close", "i": i + 1}));
            }
        }
        "dropout" => {
            let j = act["j"].as_u64().unwrap_or(1) as usize - 1;
            rig.outs[j].drop_reader();
            log.push(json!({"ev": "dropout", "j": j + 1}));
        }
        "work" => {
            do_work(rig, log);
        }
        _ => panic!("bad env op {op}"),
    }
}

/// Deliver all remaining input (as space allows), drain everything, and call
/// work() until the block is quiescent: `K` consecutive calls without movement.
/// Returns false if the budget ran out.
pub fn settle(rig: &mut Rig, log: &mut Vec<Value>, close_inputs: bool) -> bool {
    let mut idle = 0;
    // A block that keeps moving data forever without new input is cut off.
    let budget = 2000 + 20 * rig.ins.iter().map(|p| p.total()).sum::<usize>();
    for _ in 0..budget {
        let mut moved = false;
        for p in rig.ins.iter_mut() {
            let n = p.feed(usize::MAX >> 1);
            if n > 0 {
                log.push(json!({"ev": "feed", "i": 0, "k": n, "settle": true}));
                moved = true;
            }
        }
        for (j, p) in rig.outs.iter_mut().enumerate() {
            let n = p.drain(usize::MAX >> 1);
            if n > 0 {
                log.push(json!({"ev": "drain", "j": j + 1, "k": n, "settle": true}));
                moved = true;
            }
        }
        if close_inputs && rig.ins.iter().all(|p| p.left() == 0) {
            for (i, p) in rig.ins.iter_mut().enumerate() {
                if !p.closed() {
                    p.close();
                    log.push(json!({"ev": "close", "i": i + 1}));
                    moved = true;
                }
            }
        }
        let ev = do_work(rig, log);
        let k = ev["verdict"]["kind"].as_str().unwrap().to_string();
        if k == "panic" || k == "err" {
            return true;
        }
        let mv = ev["consumed"].as_array().unwrap().iter().any(|c| c.as_i64().unwrap() != 0)
            || ev["produced"].as_array().unwrap().iter().any(|c| c.as_i64().unwrap() != 0);
        if mv || moved {
            idle = 0;
        } else {
            idle += 1;
        }
        if k == "eof" && !mv {
            return true;
        }
        if idle >= 4 {
            return true;
        }
    }
    false
}

// ------------------------------------------------------------- scenarios

/// Run one scenario: {block, params, len, kind, tags, stream_bytes, seed,
/// mode: "ref" | "sched" | "random", sched: [...], steps}.
/// Returns the event log (first event = scenario header with inputs).
pub fn run_scenario(spec: &Value) -> Vec<Value> {
    let seed = spec["seed"].as_u64().unwrap_or(1);
    // Input generation uses its own rng so that the reference run and the
    // drip-feed runs of one scenario see the same data.
    let mut data_rng = Rng::new(spec["data_seed"].as_u64().unwrap_or(seed));
    POPS.with(|p| p.borrow_mut().clear());
    USED.with(|u| u.borrow_mut().clear());
    SRC_DATA.with(|d| d.borrow_mut().clear());
    crate::blocks::TMPDIRS.with(|t| t.borrow_mut().clear());
    NUM_SCALE.with(|c| c.set(1.0));
    NUM_ROUND.with(|c| c.set(false));
    rustradio::verif::trace_start();
    let mut log = Vec::new();
    let made = catch(|| crate::blocks::make(spec, &mut data_rng));
    let mut rig = match made {
        Ok(Ok(r)) => r,
        Ok(Err(e)) => {
            log.push(json!({"ev": "scenario", "spec": spec, "error": e}));
            let _ = rustradio::verif::trace_take();
            return log;
        }
        Err(p) => {
            log.push(json!({"ev": "scenario", "spec": spec, "error": format!("constructor panic: {p}")}));
            let _ = rustradio::verif::trace_take();
            return log;
        }
    };
    let with_inputs = spec["log_inputs"].as_bool().unwrap_or(false);
    // inputs are logged unscaled; the scale applies to outputs only
    NUM_SCALE.with(|c| c.set(spec["in_scale"].as_f64().unwrap_or(1.0) as Float));
    let inputs_json = json!(rig.ins.iter().map(|p| p.nums().iter().map(|x| json!(x.unwrap_or(NONUM))).collect::<Vec<_>>()).collect::<Vec<_>>());
    NUM_SCALE.with(|c| c.set(spec["out_scale"].as_f64().unwrap_or(1.0) as Float));
    NUM_ROUND.with(|c| c.set(spec["out_round"].as_bool().unwrap_or(false)));
    log.push(json!({"ev": "scenario", "block": spec["block"], "params": spec["params"], "mode": spec["mode"],
        "nin": rig.ins.len(), "nout": rig.outs.len(),
        "totals": rig.ins.iter().map(|p| p.total()).collect::<Vec<_>>(),
        "pkt_in": rig.ins.iter().map(|p| p.is_packet()).collect::<Vec<_>>(),
        "pkt_out": rig.outs.iter().map(|p| p.is_packet()).collect::<Vec<_>>(),
        "caps": rig.ins.iter().map(|p| p.space()).chain(rig.outs.iter().map(|p| p.space())).collect::<Vec<_>>(),
        "inputs": if with_inputs { inputs_json } else { json!([]) },
        "srcdata": SRC_DATA.with(|d| json!(*d.borrow())),
        "intags": rig.ins.iter().map(|p| p.tags()).collect::<Vec<_>>(),
        "seed": seed, "id": spec["id"], "gid": spec["gid"].as_i64().unwrap_or(0),
        "sync": spec["sync"].as_bool().unwrap_or(false), "close": spec["close"].as_bool().unwrap_or(false),
        "allow_err": spec["allow_err"].as_bool().unwrap_or(false),
        "infinite": spec["infinite"].as_bool().unwrap_or(false), "finite_source": spec["finite_source"].as_bool().unwrap_or(false),
        "partial": spec["no_settle"].as_bool().unwrap_or(false) || spec["partial"].as_bool().unwrap_or(false),
        "tagvalue": spec["tagvalue"].as_bool().unwrap_or(false),
        "fn": if spec["fn"].is_object() { spec["fn"].clone() } else { json!({"kind": "none"}) },
        "tagmap": if spec["tagmap"].is_object() { spec["tagmap"].clone() } else { json!({"kind": "none", "arg": 0}) }}));
    let mode = spec["mode"].as_str().unwrap_or("ref");
    let mut rng = Rng::new(seed ^ 0x5bd1e995);
    match mode {
        "ref" => {}
        "sched" => {
            for act in spec["sched"].as_array().unwrap() {
                do_env(&mut rig, act, &mut log);
                if log.last().map(|e| e["verdict"]["kind"] == "panic").unwrap_or(false) {
                    break;
                }
            }
        }
        _ => {
            // random drip-feed: small feeds, small frees, near-full output.
            let steps = spec["steps"].as_u64().unwrap_or(200) as usize;
            // style 3 = back-pressure: large feeds, tiny drains, so that the
            // output stream is full most of the time; style 4 = back-pressure
            // with medium drains.
            let style = spec["style"].as_u64().map(|x| x as usize).unwrap_or_else(|| rng.below(4));
            // Like the runners, the bench does not call work() again after EOF.
            let mut saw_eof = false;
            for _ in 0..steps {
                let r = if saw_eof { rng.below(5) } else { rng.below(10) };
                if r < 3 && !rig.ins.is_empty() {
                    let i = rng.below(rig.ins.len());
                    let k = match style {
                        0 => 1,
                        1 => 1 + rng.below(3),
                        3 | 4 => 1 << 20,
                        _ => 1 + rng.below(9),
                    };
                    do_env(&mut rig, &json!({"op": "feed", "i": i + 1, "k": k}), &mut log);
                } else if r < 5 && !rig.outs.is_empty() {
                    let j = rng.below(rig.outs.len());
                    let k = match style {
                        0 => 1,
                        2 | 3 => rng.below(3),
                        // style 4: medium drains under back-pressure, so the free
                        // space is small, varying and rarely aligned to anything
                        4 => 1 + rng.below(13),
                        _ => 1 + rng.below(6),
                    };
                    do_env(&mut rig, &json!({"op": "drain", "j": j + 1, "k": k}), &mut log);
                } else if !saw_eof {
                    let ev = do_work(&mut rig, &mut log);
                    if ev["verdict"]["kind"] == "panic" {
                        break;
                    }
                    if ev["verdict"]["kind"] == "eof" {
                        saw_eof = true;
                    }
                    // C09.3 probe: provide exactly what a wait verdict asked
                    // for on that stream, nothing else, and call again.
                    let moved = ev["consumed"].as_array().unwrap().iter().any(|c| c.as_i64().unwrap() != 0)
                        || ev["produced"].as_array().unwrap().iter().any(|c| c.as_i64().unwrap() != 0);
                    let mut which = rng.below(3);
                    // Under the back-pressure styles a counter-probe (which empties every output
                    // while the block waits for input) would undo the back-pressure each time
                    // the input runs dry: keep only one in eight of them there, so that outputs
                    // really stay full while plenty of input is waiting.
                    if which == 2 && (style == 3 || style == 4) && !rng.chance(1, 8) {
                        which = 0;
                    }
                    if ev["verdict"]["kind"] == "wait" && !moved && which == 2 {
                        // Counter-probe: provide everything EXCEPT on the stream
                        // the block says it waits for. If it then moves data the
                        // wait was misdirected.
                        let idx = ev["verdict"]["idx"].as_u64().unwrap() as usize;
                        let on_in = ev["verdict"]["side"] == "in";
                        let mut did = false;
                        for (i, p) in rig.ins.iter_mut().enumerate() {
                            if !(on_in && i + 1 == idx) {
                                let n = p.feed(usize::MAX >> 1);
                                if n > 0 {
                                    log.push(json!({"ev": "feed", "i": i + 1, "k": n}));
                                    did = true;
                                }
                            }
                        }
                        for (j, p) in rig.outs.iter_mut().enumerate() {
                            if on_in || j + 1 != idx {
                                let n = p.drain(usize::MAX >> 1);
                                if n > 0 {
                                    log.push(json!({"ev": "drain", "j": j + 1, "k": n}));
                                    did = true;
                                }
                            }
                        }
                        log.push(json!({"ev": "probe", "provided": false, "counter": did}));
                        if did {
                            let ev = do_work(&mut rig, &mut log);
                            if ev["verdict"]["kind"] == "panic" {
                                break;
                            }
                        }
                    } else if ev["verdict"]["kind"] == "wait" && !moved && which == 1 {
                        let idx = ev["verdict"]["idx"].as_u64().unwrap() as usize;
                        let need = ev["verdict"]["need"].as_u64().unwrap() as usize;
                        let mut provided = false;
                        if ev["verdict"]["side"] == "in" && idx >= 1 {
                            let p = &mut rig.ins[idx - 1];
                            if !p.closed() && p.avail() < need && p.avail() + p.left() >= need && p.avail() + p.space() >= need {
                                let k = need - p.avail();
                                let n = p.feed(k);
                                log.push(json!({"ev": "feed", "i": idx, "k": n}));
                                provided = n == k;
                            }
                        } else if ev["verdict"]["side"] == "out" && idx >= 1 {
                            let p = &mut rig.outs[idx - 1];
                            if !p.dropped() && p.space() < need && p.space() + p.avail() >= need {
                                let k = need - p.space();
                                let n = p.drain(k);
                                log.push(json!({"ev": "drain", "j": idx, "k": n}));
                                provided = n == k;
                            }
                        }
                        log.push(json!({"ev": "probe", "provided": provided, "counter": false}));
                        if provided {
                            let ev = do_work(&mut rig, &mut log);
                            if ev["verdict"]["kind"] == "panic" {
                                break;
                            }
                        }
                    }
                }
            }
        }
    }
    let panicked = log.last().map(|e| e["verdict"]["kind"] == "panic").unwrap_or(false);
    if !panicked && !spec["no_settle"].as_bool().unwrap_or(false) {
        let ok = settle(&mut rig, &mut log, spec["close"].as_bool().unwrap_or(false));
        if spec["drop_flush"].as_bool().unwrap_or(false) {
            // A block that emits when it is dropped (Hasher): drop it, as the runners do after
            // EOF, and record what it left on its outputs as one more (empty) work step.
            let gone: Box<dyn Block + Send> = Box::new(Gone::new());
            let old = std::mem::replace(&mut rig.block, gone);
            let r = catch(move || drop(old));
            if let Err(p) = r {
                log.push(json!({"ev": "work", "avail": [], "space": [], "consumed": [], "produced": [], "verdict": {"kind": "panic", "msg": p},
                    "rc_same": true, "out": [], "outn": [], "tags": [], "eof": false}));
            } else {
                do_work(&mut rig, &mut log);
                if let Some(e) = log.last_mut() {
                    e["flush"] = json!(true); // not a call of the block: what it left behind when dropped
                }
            }
        }
        log.push(json!({"ev": "final", "settled": ok,
            "left": rig.ins.iter().map(|p| p.left()).collect::<Vec<_>>(),
            "backlog": rig.ins.iter().map(|p| p.avail()).collect::<Vec<_>>()}));
    }
    if !panicked && spec["no_settle"].as_bool().unwrap_or(false) {
        // no settling (e.g. infinite sources): judge what was produced so far
        log.push(json!({"ev": "final", "settled": true, "partial": true, "left": [], "backlog": []}));
    }
    let _ = rustradio::verif::trace_take();
    log
}

/// bench --specs FILE --out FILE : run every scenario line, write all events.
pub fn cmd_bench(args: &[String]) -> i32 {
    use std::io::{BufRead, Write};
    quiet_panics();
    let file = arg_val(args, "--specs").expect("--specs");
    let out = arg_val(args, "--out").expect("--out");
    let f = std::io::BufReader::new(std::fs::File::open(&file).expect("open"));
    let mut o = std::io::BufWriter::new(std::fs::File::create(&out).expect("create"));
    let (mut n, mut evs, mut works) = (0, 0, 0);
    for line in f.lines() {
        let line = line.unwrap();
        if line.trim().is_empty() {
            continue;
        }
        let spec: Value = serde_json::from_str(&line).expect("json");
        // A panic of the harness itself (e.g. a stream left poisoned by the
        // block) ends the scenario; it is reported, not fatal.
        let log = match catch(|| run_scenario(&spec)) {
            Ok(l) => l,
            Err(p) => {
                let _ = rustradio::verif::trace_take();
                vec![json!({"ev": "scenario", "block": spec["block"], "params": spec["params"], "mode": spec["mode"], "id": spec["id"],
                    "error": format!("harness panic: {p}")})]
            }
        };
        n += 1;
        for e in log {
            if e["ev"] == "work" {
                works += 1;
            }
            writeln!(o, "{e}").unwrap();
            evs += 1;
        }
    }
    o.flush().unwrap();
    println!("{}", json!({"scenarios": n, "events": evs, "works": works}));
    0
}
