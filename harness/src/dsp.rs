//! C11 kernel-level traces: the non-block DSP kernels and tap generators are
//! called directly on integer-valued data and their results logged for
//! specs/Dsp_Trace.tla. Floats that are not integers are logged in binary
//! fixed point (round(v * 2^k)).
use crate::common::*;
use rustradio::blocks::*;
use rustradio::fir::Fir;
use rustradio::graph::{Graph, GraphRunner};
use rustradio::iir_filter::{ClampedFilter, Filter, IirFilter};
use rustradio::window::WindowType;
use rustradio::{Complex, Float};
use serde_json::{Value, json};
use std::io::Write;

fn exact(f: Float) -> i64 {
    if f.is_finite() && f.fract() == 0.0 && f.abs() < 16_000_000.0 { f as i64 } else { crate::bench::NONUM }
}
fn fixed(f: Float, bits: u32) -> i64 {
    let x = (f as f64) * (1u64 << bits) as f64;
    if x.is_finite() && x.abs() < 2_000_000_000.0 { x.round() as i64 } else { crate::bench::NONUM }
}
fn pack(c: Complex) -> i64 {
    let (a, b) = (exact(c.re), exact(c.im));
    if (-2048..2048).contains(&a) && (-2048..2048).contains(&b) { (a + 2048) * 4096 + (b + 2048) } else { crate::bench::NONUM }
}
fn ints(rng: &mut Rng, n: usize, lo: i64, hi: i64) -> Vec<i64> {
    (0..n).map(|_| lo + rng.below((hi - lo + 1) as usize) as i64).collect()
}
fn windows() -> Vec<(&'static str, WindowType)> {
    vec![("hamming", WindowType::Hamming), ("hamming_parm", WindowType::HammingParm(0.53836)), ("blackman", WindowType::Blackman),
         ("blackman_harris", WindowType::BlackmanHarris)]
}

/// dsp-kernels --seed S --n N --out FILE
pub fn cmd_kernels(args: &[String]) -> i32 {
    quiet_panics();
    let mut rng = Rng::new(arg_usize(args, "--seed", 1) as u64);
    let n = arg_usize(args, "--n", 100);
    let mut o = std::io::BufWriter::new(std::fs::File::create(arg_val(args, "--out").expect("--out")).expect("create"));
    let mut count = 0usize;
    let avx = cfg!(all(target_feature = "avx", target_feature = "sse3", target_feature = "sse"));
    let mut emit = |o: &mut std::io::BufWriter<std::fs::File>, v: Value| {
        writeln!(o, "{}", v).unwrap();
        count += 1;
    };
    emit(&mut o, json!({"ev": "build", "avx": avx}));
    for k in 0..n {
        // ---- FIR kernels
        let nt = match k % 6 { 0 => 1 + rng.below(4), 1 => [7, 8, 9, 15, 16, 17, 24, 31, 32, 33][rng.below(10)], _ => 1 + rng.below(40) };
        let taps = ints(&mut rng, nt, -3, 3);
        let deci = 1 + rng.below(8);
        let len = nt + rng.below(30);
        let x = ints(&mut rng, len, -4, 4);
        let tf: Vec<Float> = taps.iter().map(|v| *v as Float).collect();
        let xf: Vec<Float> = x.iter().map(|v| *v as Float).collect();
        let fir = Fir::new(&tf);
        let r = catch(|| {
            let a = fir.filter(&xf);
            let b = fir.filter_float(&xf[..nt]);
            let c = fir.filter_n(&xf, deci);
            let m = (len - nt) / deci + 1;
            let m = if m > 1 { 1 + rng.below(m) } else { m };
            let mut d = vec![0.0 as Float; m];
            fir.filter_n_inplace(&xf, deci, &mut d);
            (a, b, c, d)
        });
        match r {
            Ok((a, b, c, d)) => {
                emit(&mut o, json!({"ev": "fir", "variant": "filter", "taps": taps, "x": x, "deci": 1, "out": [exact(a)], "all": false}));
                emit(&mut o, json!({"ev": "fir", "variant": "filter_float", "taps": taps, "x": x[..nt], "deci": 1, "out": [exact(b)], "all": true}));
                emit(&mut o, json!({"ev": "fir", "variant": "filter_n", "taps": taps, "x": x, "deci": deci, "out": c.iter().map(|v| exact(*v)).collect::<Vec<_>>(), "all": true}));
                emit(&mut o, json!({"ev": "fir", "variant": "inplace", "taps": taps, "x": x, "deci": deci, "out": d.iter().map(|v| exact(*v)).collect::<Vec<_>>(), "all": false}));
            }
            Err(p) => emit(&mut o, json!({"ev": "panic", "what": "fir", "taps": taps, "x": x, "deci": deci, "msg": p})),
        }
        // complex FIR
        if k % 3 == 0 {
            let nt = 1 + rng.below(9);
            let tc: Vec<Complex> = (0..nt).map(|_| Complex::new(rng.below(5) as Float - 2.0, rng.below(5) as Float - 2.0)).collect();
            let len = nt + rng.below(12);
            let xc: Vec<Complex> = (0..len).map(|_| Complex::new(rng.below(7) as Float - 3.0, rng.below(7) as Float - 3.0)).collect();
            let fir = Fir::new(&tc);
            match catch(|| fir.filter_n(&xc, deci)) {
                Ok(c) => emit(&mut o, json!({"ev": "firc", "taps": tc.iter().map(|c| [exact(c.re), exact(c.im)]).collect::<Vec<_>>(),
                    "x": xc.iter().map(|c| pack(*c)).collect::<Vec<_>>(), "deci": deci, "out": c.iter().map(|c| pack(*c)).collect::<Vec<_>>()})),
                Err(p) => emit(&mut o, json!({"ev": "panic", "what": "firc", "msg": p})),
            }
        }
        // ---- IIR recurrence
        let nt = 1 + rng.below(4);
        let taps = ints(&mut rng, nt, -1, 2);
        let xl = 1 + rng.below(8);
        let x = ints(&mut rng, xl, -2, 2);
        let fill = if k % 4 == 0 { Some(rng.below(3) as i64 - 1) } else { None };
        let tf: Vec<Float> = taps.iter().map(|v| *v as Float).collect();
        let r = catch(|| {
            let mut f = IirFilter::new(&tf);
            if let Some(s) = fill {
                f.fill(s as Float);
            }
            x.iter().map(|v| exact(f.filter(*v as Float))).collect::<Vec<_>>()
        });
        match r {
            Ok(out) => emit(&mut o, json!({"ev": "iir", "taps": taps, "x": x, "fill": fill.unwrap_or(0), "filled": fill.is_some(), "out": out})),
            Err(p) => emit(&mut o, json!({"ev": "panic", "what": "iir", "msg": p})),
        }
        // clamped variant: the clamped value is what is fed back
        let (mi, mx) = (-(1 + rng.below(3) as i64), 1 + rng.below(3) as i64);
        let nt = 1 + rng.below(3);
        let taps = ints(&mut rng, nt, -1, 2);
        let xl = 2 + rng.below(8);
        let x = ints(&mut rng, xl, -3, 3);
        let tf: Vec<Float> = taps.iter().map(|v| *v as Float).collect();
        let r = catch(|| {
            let mut f = IirFilter::new(&tf);
            x.iter().map(|v| exact(f.filter_clamped(*v as Float, mi as Float, mx as Float))).collect::<Vec<_>>()
        });
        match r {
            Ok(out) => emit(&mut o, json!({"ev": "iirc", "taps": taps, "x": x, "mi": mi, "mx": mx, "out": out})),
            Err(p) => emit(&mut o, json!({"ev": "panic", "what": "iirc", "msg": p})),
        }
    }
    // ---- generated taps
    for (wname, w) in windows() {
        for (sr, cutoff, tw) in [(8000.0, 1000.0, 400.0), (44100.0, 1100.0, 100.0), (50000.0, 12500.0, 1000.0), (1000.0, 100.0, 100.0), (48000.0, 20000.0, 5000.0),
                                 (100.0, 10.0, 40.0)] {
            match catch(|| rustradio::fir::low_pass(sr, cutoff, tw, &w)) {
                Ok(t) => emit(&mut o, json!({"ev": "lowpass", "window": wname, "rate": sr, "cutoff": cutoff, "twidth": tw, "n": t.len(),
                    "taps24": t.iter().map(|v| fixed(*v, 24)).collect::<Vec<_>>()})),
                Err(p) => emit(&mut o, json!({"ev": "panic", "what": "lowpass", "window": wname, "msg": p})),
            }
        }
        for nt in [3usize, 5, 9, 17, 33, 65] {
            match catch(|| rustradio::fir::hilbert(&w.make_window(nt))) {
                Ok(t) => emit(&mut o, json!({"ev": "hilbert_taps", "window": wname, "n": nt, "taps20": t.iter().map(|v| fixed(*v, 20)).collect::<Vec<_>>()})),
                Err(p) => emit(&mut o, json!({"ev": "panic", "what": "hilbert_taps", "window": wname, "msg": p})),
            }
        }
    }
    // ---- Hilbert block on integer input, whole and through small streams
    for (i, nt) in [3usize, 5, 9, 17, 65].iter().enumerate() {
        for (len, small) in [(40usize, false), (1500, true)] {
            let x = ints(&mut rng, len, -3, 3);
            let r = catch(|| {
                rustradio::verif::set_stream_size(if small { 4096 } else { 0 });
                let mut g = Graph::new();
                let (src, prev) = VectorSource::new(x.iter().map(|v| *v as Float).collect::<Vec<_>>());
                let (h, prev) = Hilbert::new(prev, *nt, &WindowType::Hamming);
                let sink = VectorSink::new(prev, 1 << 20);
                let hook = sink.hook();
                g.add(Box::new(src));
                g.add(Box::new(h));
                g.add(Box::new(sink));
                let res = g.run().map_err(|e| format!("{e}"));
                rustradio::verif::set_stream_size(0);
                (res, hook.data().samples().to_vec())
            });
            rustradio::verif::set_stream_size(0);
            let taps = rustradio::fir::hilbert(&WindowType::Hamming.make_window(*nt));
            match r {
                Ok((Ok(()), out)) => emit(&mut o, json!({"ev": "hilbert", "ntaps": nt, "x": x, "small_streams": small, "case": i,
                    "re": out.iter().map(|c| exact(c.re)).collect::<Vec<_>>(), "im20": out.iter().map(|c| fixed(c.im, 20)).collect::<Vec<_>>(),
                    "taps20": taps.iter().map(|v| fixed(*v, 20)).collect::<Vec<_>>()})),
                Ok((Err(e), _)) => emit(&mut o, json!({"ev": "panic", "what": "hilbert", "msg": e})),
                Err(p) => emit(&mut o, json!({"ev": "panic", "what": "hilbert", "msg": p})),
            }
        }
    }
    o.flush().unwrap();
    println!("{}", json!({"events": count, "avx": avx}));
    0
}
