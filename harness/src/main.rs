//! vh: conformance harness binding the TLA+ specifications in /verif/specs to
//! the real rustradio code in /repo (built with --cfg rustradio_verif).
mod ax25;
mod bench;
mod dsp;
mod blocks;
mod common;
mod formats;
mod gengraph;
mod graphs;
mod mt;
mod ring;
mod userblocks;

fn main() {
    let args: Vec<String> = std::env::args().collect();
    let cmd = args.get(1).map(|s| s.as_str()).unwrap_or("");
    let rest = &args[2.min(args.len())..];
    let code = match cmd {
        "ring-replay" => ring::cmd_replay(rest),
        "ring-trace" => ring::cmd_trace(rest),
        "repeat-replay" => ring::cmd_repeat_replay(rest),
        "ax25-run" => ax25::cmd_run(rest),
        "dsp-kernels" => dsp::cmd_kernels(rest),
        "gengraph-run" => gengraph::cmd_run(rest),
        "bench" => bench::cmd_bench(rest),
        "codec" => formats::cmd_codec(rest),
        "reasm" => formats::cmd_reasm(rest),
        "roundtrip" => formats::cmd_roundtrip(rest),
        "mmap-run" => formats::cmd_mmap_run(rest),
        "sigmf-fuzz" => formats::cmd_sigmf_fuzz(rest),
        "sink-modes" => formats::cmd_sink_modes(rest),
        "sink-child" => formats::cmd_sink_child(rest),
        "sink-crash" => formats::cmd_sink_crash(rest),
        "graph-run" => graphs::cmd_run(rest),
        "mtgraph-run" => graphs::cmd_mt_run(rest),
        "mt-random" => mt::cmd_random(rest),
        "mt-replay" => mt::cmd_replay(rest),
        _ => {
            eprintln!("unknown command {cmd}");
            2
        }
    };
    std::process::exit(code);
}
