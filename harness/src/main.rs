fn main() { println!("vh"); }
