//! C06/C07 (single-threaded runner) and shared graph-building helpers.
//!
//! `graph-run`: for each configuration line {kinds, order, total, cap, fail,
//! cancel} build the chain from real blocks, run it on the real Graph::run
//! with tracing on, and write the runner's event trace for validation by
//! specs/Graph_Trace.tla.
use crate::common::*;
use rustradio::block::{Block, BlockEOF, BlockName, BlockRet};
use rustradio::blocks::*;
use rustradio::graph::{CancellationToken, Graph, GraphRunner};
use rustradio::stream::{ReadStream, WriteStream, new_stream};
use rustradio::verif;
use serde_json::{Value, json};
use std::io::{BufRead, Write};
use std::sync::Arc;
use std::sync::atomic::{AtomicUsize, Ordering};

/// One-page-per-sample element so that a stream of `cap` pages has capacity
/// `cap`. Arithmetic acts on lane 0 only; lanes carry a checksum.
#[derive(Clone, Copy, PartialEq, Debug)]
#[repr(C)]
pub struct Big(pub [u64; 512]);
impl Default for Big {
    fn default() -> Self {
        Big::of(0)
    }
}
impl Big {
    pub fn of(v: u64) -> Self {
        let mut a = [0u64; 512];
        for (j, x) in a.iter_mut().enumerate() {
            *x = v.wrapping_mul(1_000_003).wrapping_add(j as u64);
        }
        Big(a)
    }
    pub fn val(&self) -> Option<u64> {
        if self.0[0] % 1_000_003 != 0 {
            return None;
        }
        let v = self.0[0] / 1_000_003;
        if *self == Big::of(v) { Some(v) } else { None }
    }
}
impl std::ops::Add for Big {
    type Output = Big;
    fn add(self, o: Big) -> Big {
        Big::of(self.val().unwrap_or(u32::MAX as u64) + o.val().unwrap_or(u32::MAX as u64))
    }
}

/// Source in the verdict style of SigMFSource / ConstantSource: commits what
/// fits, then answers WaitForStream(dst); EOF once everything is out.
pub struct SrcWait<T: Copy> {
    dst: WriteStream<T>,
    data: Vec<T>,
    pos: usize,
}
impl<T: Copy> SrcWait<T> {
    pub fn new(data: Vec<T>) -> (Self, ReadStream<T>) {
        let (dst, r) = new_stream();
        (Self { dst, data, pos: 0 }, r)
    }
}
impl<T: Copy> BlockName for SrcWait<T> {
    fn block_name(&self) -> &str {
        "SrcWait"
    }
}
impl<T: Copy> BlockEOF for SrcWait<T> {}
impl<T: Copy> Block for SrcWait<T> {
    fn work(&mut self) -> rustradio::Result<BlockRet> {
        if self.pos == self.data.len() {
            return Ok(BlockRet::EOF);
        }
        let mut o = self.dst.write_buf()?;
        let n = o.len().min(self.data.len() - self.pos);
        o.fill_from_slice(&self.data[self.pos..self.pos + n]);
        o.produce(n, &[]);
        self.pos += n;
        Ok(BlockRet::WaitForStream(&self.dst, 1))
    }
}

/// What a wrapped block should do on its k-th call.
#[derive(Clone)]
pub enum Inject {
    None,
    Fail(usize),
    Cancel(usize, CancellationToken),
}

/// Wrapper counting work() calls, failing or cancelling at a chosen call.
pub struct Wrap {
    inner: Box<dyn Block + Send>,
    id: usize,
    calls: Arc<AtomicUsize>,
    inject: Inject,
}
impl Wrap {
    pub fn new(inner: Box<dyn Block + Send>, id: usize, inject: Inject) -> (Self, Arc<AtomicUsize>) {
        let calls = Arc::new(AtomicUsize::new(0));
        (Self { inner, id, calls: calls.clone(), inject }, calls)
    }
}
impl BlockName for Wrap {
    fn block_name(&self) -> &str {
        self.inner.block_name()
    }
}
impl BlockEOF for Wrap {
    fn eof(&mut self) -> bool {
        self.inner.eof()
    }
}
impl Block for Wrap {
    fn work(&mut self) -> rustradio::Result<BlockRet> {
        let k = self.calls.fetch_add(1, Ordering::SeqCst) + 1;
        verif::emit(format!("\"ev\":\"call\",\"op\":\"work\",\"b\":{},\"k\":{k}", self.id));
        match &self.inject {
            Inject::Fail(at) if *at == k => {
                return Err(rustradio::Error::msg(format!("injected failure block {} call {k}", self.id)));
            }
            Inject::Cancel(at, tok) if *at == k => {
                tok.cancel();
                verif::emit(format!("\"ev\":\"cancel\",\"b\":{},\"k\":{k}", self.id));
            }
            _ => {}
        }
        self.inner.work()
    }
}

pub type Hook = rustradio::vector_sink::Hook<Big>;

/// Build the chain `kinds` from real blocks; returns the blocks in chain order
/// and the sink's hook.
pub fn build_chain(kinds: &[String], total: usize) -> (Vec<Box<dyn Block + Send>>, Hook) {
    let data: Vec<Big> = (1..=total as u64).map(Big::of).collect();
    let mut blocks: Vec<Box<dyn Block + Send>> = Vec::new();
    let mut prev: ReadStream<Big> = match kinds[0].as_str() {
        "src_eof" => {
            let (b, o) = VectorSource::new(data);
            blocks.push(Box::new(b));
            o
        }
        "src_wait" => {
            let (b, o) = SrcWait::new(data);
            blocks.push(Box::new(b));
            o
        }
        k => panic!("bad source kind {k}"),
    };
    for k in &kinds[1..kinds.len() - 1] {
        prev = match k.as_str() {
            "sync" => {
                let (b, o) = AddConst::new(prev, Big::of(1000));
                blocks.push(Box::new(b));
                o
            }
            "mover_wait" => {
                let (b, o) = RationalResampler::new(prev, 1, 1).unwrap();
                blocks.push(Box::new(b));
                o
            }
            "dec2_wait" => {
                let (b, o) = RationalResampler::new(prev, 1, 2).unwrap();
                blocks.push(Box::new(b));
                o
            }
            k => panic!("bad kind {k}"),
        };
    }
    let sink = VectorSink::new(prev, 1 << 30);
    let hook = sink.hook();
    blocks.push(Box::new(sink));
    (blocks, hook)
}

/// Reference output of the chain, computed independently of the blocks.
pub fn reference(kinds: &[String], total: usize) -> Vec<u64> {
    let mut v: Vec<u64> = (1..=total as u64).collect();
    for k in &kinds[1..kinds.len() - 1] {
        v = match k.as_str() {
            "sync" => v.iter().map(|x| x + 1000).collect(),
            "mover_wait" => v,
            "dec2_wait" => v.iter().step_by(2).copied().collect(),
            _ => v,
        };
    }
    v
}

fn run_one(cfg: &Value, out: &mut impl Write) -> usize {
    let kinds: Vec<String> = cfg["kinds"].as_array().unwrap().iter().map(|k| k.as_str().unwrap().to_string()).collect();
    let order: Vec<usize> = cfg["order"].as_array().unwrap().iter().map(|k| k.as_u64().unwrap() as usize).collect();
    let total = cfg["total"].as_u64().unwrap() as usize;
    let cap = cfg["cap"].as_u64().unwrap() as usize;
    verif::set_thread_stream_size(cap * 4096);
    let (blocks, hook) = build_chain(&kinds, total);
    let mut g = Graph::new();
    let tok = g.cancel_token();
    let mut slots: Vec<Option<Box<dyn Block + Send>>> = blocks.into_iter().map(Some).collect();
    let mut counters = vec![None; kinds.len()];
    for b in &order {
        let inner = slots[b - 1].take().unwrap();
        let inject = if cfg["fail"][0].as_u64() == Some(*b as u64) {
            Inject::Fail(cfg["fail"][1].as_u64().unwrap() as usize)
        } else if cfg["cancel"][0].as_u64() == Some(*b as u64) {
            Inject::Cancel(cfg["cancel"][1].as_u64().unwrap() as usize, tok.clone())
        } else {
            Inject::None
        };
        let (w, c) = Wrap::new(inner, *b, inject);
        counters[b - 1] = Some(c);
        g.add(Box::new(w));
    }
    verif::trace_start();
    let res = catch(|| g.run());
    let evs = verif::trace_take();
    let got: Vec<Option<u64>> = hook.data().samples().iter().map(|s| s.val()).collect();
    let want = reference(&kinds, total);
    let content_ok = got.len() <= want.len() && got.iter().zip(want.iter()).all(|(a, b)| *a == Some(*b));
    let outcome = match &res {
        Ok(Ok(())) => "ok".to_string(),
        Ok(Err(e)) => format!("err:{e}"),
        Err(p) => format!("panic:{p}"),
    };
    writeln!(out, "{}", json!({"ev": "config", "kinds": kinds, "order": order, "total": total, "cap": cap,
        "fail": cfg["fail"], "cancel": cfg["cancel"]})).unwrap();
    let mut n = 1;
    for e in evs {
        // Ring-level events are not part of the runner model.
        if e.contains("\"ev\":\"g_") || e.contains("\"ev\":\"call\",\"op\":\"work\"") || e.contains("\"ev\":\"cancel\"") {
            writeln!(out, "{e}").unwrap();
            n += 1;
        }
    }
    let calls: Vec<usize> = counters.iter().map(|c| c.as_ref().unwrap().load(Ordering::SeqCst)).collect();
    writeln!(out, "{}", json!({"ev": "g_return", "outcome": if outcome.starts_with("err") { "err" } else if outcome == "ok" { "ok" } else { "panic" },
        "detail": outcome, "got": got.len(), "prefix_ok": content_ok, "want": want.len(), "calls": calls})).unwrap();
    n + 1
}

/// graph-run --configs FILE --out FILE
pub fn cmd_run(args: &[String]) -> i32 {
    quiet_panics();
    let file = arg_val(args, "--configs").expect("--configs");
    let out = arg_val(args, "--out").expect("--out");
    let f = std::io::BufReader::new(std::fs::File::open(&file).expect("open"));
    let mut o = std::io::BufWriter::new(std::fs::File::create(&out).expect("create"));
    let (mut runs, mut events) = (0, 0);
    for line in f.lines() {
        let line = line.unwrap();
        if line.trim().is_empty() {
            continue;
        }
        let cfg: Value = serde_json::from_str(&line).expect("json");
        events += run_one(&cfg, &mut o);
        runs += 1;
    }
    o.flush().unwrap();
    println!("{}", json!({"runs": runs, "events": events}));
    0
}
