//! C06/C07 (single-threaded runner) and shared graph-building helpers.
//!
//! `graph-run`: for each configuration line {kinds, order, total, cap, fail,
//! cancel} build the chain from real blocks, run it on the real Graph::run
//! with tracing on, and write the runner's event trace for validation by
//! specs/Graph_Trace.tla.
use crate::common::*;
use rustradio::block::{Block, BlockEOF, BlockName, BlockRet};
use rustradio::blocks::*;
use rustradio::graph::{CancellationToken, Graph, GraphRunner};
use rustradio::stream::{ReadStream, WriteStream, new_stream};
use rustradio::verif;
use serde_json::{Value, json};
use std::io::{BufRead, Write};
use std::sync::Arc;
use std::sync::atomic::{AtomicUsize, Ordering};

/// One-page-per-sample element so that a stream of `cap` pages has capacity
/// `cap`. Arithmetic acts on lane 0 only; lanes carry a checksum.
#[derive(Clone, Copy, PartialEq, Debug)]
#[repr(C)]
pub struct Big(pub [u64; 512]);
impl Default for Big {
    fn default() -> Self {
        Big::of(0)
    }
}
impl Big {
    pub fn of(v: u64) -> Self {
        let mut a = [0u64; 512];
        for (j, x) in a.iter_mut().enumerate() {
            *x = v.wrapping_mul(1_000_003).wrapping_add(j as u64);
        }
        Big(a)
    }
    pub fn val(&self) -> Option<u64> {
        if self.0[0] % 1_000_003 != 0 {
            return None;
        }
        let v = self.0[0] / 1_000_003;
        if *self == Big::of(v) { Some(v) } else { None }
    }
}
impl std::ops::Add for Big {
    type Output = Big;
    fn add(self, o: Big) -> Big {
        Big::of(self.val().unwrap_or(u32::MAX as u64) + o.val().unwrap_or(u32::MAX as u64))
    }
}

/// Source in the verdict style of SigMFSource / ConstantSource: commits what
/// fits, then answers WaitForStream(dst); EOF once everything is out.
pub struct SrcWait<T: Copy> {
    dst: WriteStream<T>,
    data: Vec<T>,
    pos: usize,
}
impl<T: Copy> SrcWait<T> {
    pub fn new(data: Vec<T>) -> (Self, ReadStream<T>) {
        let (dst, r) = new_stream();
        (Self { dst, data, pos: 0 }, r)
    }
}
impl<T: Copy> BlockName for SrcWait<T> {
    fn block_name(&self) -> &str {
        "SrcWait"
    }
}
impl<T: Copy> BlockEOF for SrcWait<T> {}
impl<T: Copy> Block for SrcWait<T> {
    fn work(&mut self) -> rustradio::Result<BlockRet> {
        if self.pos == self.data.len() {
            return Ok(BlockRet::EOF);
        }
        let mut o = self.dst.write_buf()?;
        let n = o.len().min(self.data.len() - self.pos);
        o.fill_from_slice(&self.data[self.pos..self.pos + n]);
        o.produce(n, &[]);
        self.pos += n;
        Ok(BlockRet::WaitForStream(&self.dst, 1))
    }
}

/// A source in the style of a hardware / pipe source: every other call answers
/// Pending without moving anything (data not there yet); the calls in between
/// commit what fits and answer Again, or EOF with the last piece.
pub struct SrcPending<T: Copy> {
    dst: WriteStream<T>,
    data: Vec<T>,
    pos: usize,
    ready: bool,
}
impl<T: Copy> SrcPending<T> {
    pub fn new(data: Vec<T>) -> (Self, ReadStream<T>) {
        let (dst, r) = new_stream();
        (Self { dst, data, pos: 0, ready: false }, r)
    }
}
impl<T: Copy> BlockName for SrcPending<T> {
    fn block_name(&self) -> &str {
        "SrcPending"
    }
}
impl<T: Copy> BlockEOF for SrcPending<T> {}
impl<T: Copy> Block for SrcPending<T> {
    fn work(&mut self) -> rustradio::Result<BlockRet> {
        if self.pos == self.data.len() {
            return Ok(BlockRet::EOF);
        }
        if !self.ready {
            self.ready = true;
            return Ok(BlockRet::Pending);
        }
        let mut o = self.dst.write_buf()?;
        if o.is_empty() {
            return Ok(BlockRet::WaitForStream(&self.dst, 1));
        }
        let n = o.len().min(self.data.len() - self.pos);
        o.fill_from_slice(&self.data[self.pos..self.pos + n]);
        o.produce(n, &[]);
        self.pos += n;
        self.ready = false;
        if self.pos == self.data.len() {
            return Ok(BlockRet::EOF);
        }
        Ok(BlockRet::Again)
    }
}

/// What a wrapped block should do on its k-th call.
#[derive(Clone)]
pub enum Inject {
    None,
    Fail(usize),
    Cancel(usize, CancellationToken),
}

/// Wrapper counting work() calls, failing or cancelling at a chosen call.
pub struct Wrap {
    inner: Box<dyn Block + Send>,
    id: usize,
    calls: Arc<AtomicUsize>,
    inject: Inject,
}
impl Wrap {
    pub fn new(inner: Box<dyn Block + Send>, id: usize, inject: Inject) -> (Self, Arc<AtomicUsize>) {
        let calls = Arc::new(AtomicUsize::new(0));
        (Self { inner, id, calls: calls.clone(), inject }, calls)
    }
}
impl BlockName for Wrap {
    fn block_name(&self) -> &str {
        self.inner.block_name()
    }
}
impl BlockEOF for Wrap {
    fn eof(&mut self) -> bool {
        self.inner.eof()
    }
}
impl Block for Wrap {
    fn work(&mut self) -> rustradio::Result<BlockRet> {
        let k = self.calls.fetch_add(1, Ordering::SeqCst) + 1;
        verif::emit(format!("\"ev\":\"call\",\"op\":\"work\",\"b\":{},\"k\":{k}", self.id));
        match &self.inject {
            Inject::Fail(at) if *at == k => {
                return Err(rustradio::Error::msg(format!("injected failure block {} call {k}", self.id)));
            }
            Inject::Cancel(at, tok) if *at == k => {
                tok.cancel();
                verif::emit(format!("\"ev\":\"cancel\",\"b\":{},\"k\":{k}", self.id));
            }
            _ => {}
        }
        self.inner.work()
    }
}

pub type Hook = rustradio::vector_sink::Hook<Big>;

/// Build the chain `kinds` from real blocks; returns the blocks in chain order
/// and the sink's hook.
pub fn build_chain(kinds: &[String], total: usize) -> (Vec<Box<dyn Block + Send>>, Hook) {
    let data: Vec<Big> = (1..=total as u64).map(Big::of).collect();
    let mut blocks: Vec<Box<dyn Block + Send>> = Vec::new();
    let mut prev: ReadStream<Big> = match kinds[0].as_str() {
        "src_eof" => {
            let (b, o) = VectorSource::new(data);
            blocks.push(Box::new(b));
            o
        }
        "src_wait" => {
            let (b, o) = SrcWait::new(data);
            blocks.push(Box::new(b));
            o
        }
        "src_pending" => {
            let (b, o) = SrcPending::new(data);
            blocks.push(Box::new(b));
            o
        }
        k => panic!("bad source kind {k}"),
    };
    for k in &kinds[1..kinds.len() - 1] {
        prev = match k.as_str() {
            "sync" => {
                let (b, o) = AddConst::new(prev, Big::of(1000));
                blocks.push(Box::new(b));
                o
            }
            "mover_wait" => {
                let (b, o) = RationalResampler::new(prev, 1, 1).unwrap();
                blocks.push(Box::new(b));
                o
            }
            "dec2_wait" => {
                let (b, o) = RationalResampler::new(prev, 1, 2).unwrap();
                blocks.push(Box::new(b));
                o
            }
            k => panic!("bad kind {k}"),
        };
    }
    let sink = VectorSink::new(prev, 1 << 30);
    let hook = sink.hook();
    blocks.push(Box::new(sink));
    (blocks, hook)
}

/// Reference output of the chain, computed independently of the blocks.
pub fn reference(kinds: &[String], total: usize) -> Vec<u64> {
    let mut v: Vec<u64> = (1..=total as u64).collect();
    for k in &kinds[1..kinds.len() - 1] {
        v = match k.as_str() {
            "sync" => v.iter().map(|x| x + 1000).collect(),
            "mover_wait" => v,
            "dec2_wait" => v.iter().step_by(2).copied().collect(),
            _ => v,
        };
    }
    v
}

fn run_one(cfg: &Value, out: &mut impl Write) -> usize {
    let kinds: Vec<String> = cfg["kinds"].as_array().unwrap().iter().map(|k| k.as_str().unwrap().to_string()).collect();
    let order: Vec<usize> = cfg["order"].as_array().unwrap().iter().map(|k| k.as_u64().unwrap() as usize).collect();
    let total = cfg["total"].as_u64().unwrap() as usize;
    let cap = cfg["cap"].as_u64().unwrap() as usize;
    verif::set_thread_stream_size(cap * 4096);
    let (blocks, hook) = build_chain(&kinds, total);
    let mut g = Graph::new();
    let tok = g.cancel_token();
    let mut slots: Vec<Option<Box<dyn Block + Send>>> = blocks.into_iter().map(Some).collect();
    let mut counters = vec![None; kinds.len()];
    for b in &order {
        let inner = slots[b - 1].take().unwrap();
        let inject = if cfg["fail"][0].as_u64() == Some(*b as u64) {
            Inject::Fail(cfg["fail"][1].as_u64().unwrap() as usize)
        } else if cfg["cancel"][0].as_u64() == Some(*b as u64) {
            Inject::Cancel(cfg["cancel"][1].as_u64().unwrap() as usize, tok.clone())
        } else {
            Inject::None
        };
        let (w, c) = Wrap::new(inner, *b, inject);
        counters[b - 1] = Some(c);
        g.add(Box::new(w));
    }
    verif::trace_start();
    if cfg["cancel"][0].as_i64() == Some(-1) {
        // cancelled before run() is even called
        tok.cancel();
        verif::emit("\"ev\":\"cancel\",\"b\":0,\"k\":0".to_string());
    }
    let res = catch(|| g.run());
    let evs = verif::trace_take();
    let got: Vec<Option<u64>> = hook.data().samples().iter().map(|s| s.val()).collect();
    let want = reference(&kinds, total);
    let content_ok = got.len() <= want.len() && got.iter().zip(want.iter()).all(|(a, b)| *a == Some(*b));
    let outcome = match &res {
        Ok(Ok(())) => "ok".to_string(),
        Ok(Err(e)) => format!("err:{e}"),
        Err(p) => format!("panic:{p}"),
    };
    writeln!(out, "{}", json!({"ev": "config", "kinds": kinds, "order": order, "total": total, "cap": cap,
        "fail": cfg["fail"], "cancel": cfg["cancel"]})).unwrap();
    let mut n = 1;
    for e in evs {
        // Ring-level events are not part of the runner model.
        if e.contains("\"ev\":\"g_") || e.contains("\"ev\":\"call\",\"op\":\"work\"") || e.contains("\"ev\":\"cancel\"") {
            writeln!(out, "{e}").unwrap();
            n += 1;
        }
    }
    let calls: Vec<usize> = counters.iter().map(|c| c.as_ref().unwrap().load(Ordering::SeqCst)).collect();
    writeln!(out, "{}", json!({"ev": "g_return", "outcome": if outcome.starts_with("err") { "err" } else if outcome == "ok" { "ok" } else { "panic" },
        "detail": outcome, "got": got.len(), "prefix_ok": content_ok, "want": want.len(), "calls": calls})).unwrap();
    n + 1
}

/// graph-run --configs FILE --out FILE
pub fn cmd_run(args: &[String]) -> i32 {
    quiet_panics();
    let file = arg_val(args, "--configs").expect("--configs");
    let out = arg_val(args, "--out").expect("--out");
    let f = std::io::BufReader::new(std::fs::File::open(&file).expect("open"));
    let mut o = std::io::BufWriter::new(std::fs::File::create(&out).expect("create"));
    let (mut runs, mut events) = (0, 0);
    for line in f.lines() {
        let line = line.unwrap();
        if line.trim().is_empty() {
            continue;
        }
        let cfg: Value = serde_json::from_str(&line).expect("json");
        events += run_one(&cfg, &mut o);
        runs += 1;
    }
    o.flush().unwrap();
    println!("{}", json!({"runs": runs, "events": events}));
    0
}

// ------------------------------------------------------------ MTGraph runs

use rustradio::mtgraph::MTGraph;
use rustradio::stream::StreamWait;
use rustradio::verif::{Grant, Point};

/// Wrapper with a unique thread/block name "b<id>".
pub struct Named {
    inner: Wrap,
    name: String,
}
impl BlockName for Named {
    fn block_name(&self) -> &str {
        &self.name
    }
}
impl BlockEOF for Named {
    fn eof(&mut self) -> bool {
        self.inner.eof()
    }
}
impl Block for Named {
    fn work(&mut self) -> rustradio::Result<BlockRet> {
        self.inner.work()
    }
}

fn grant_name(g: &Grant) -> &'static str {
    match g {
        Grant::Go => "go",
        Grant::Timeout => "timeout",
        Grant::Notified => "notified",
    }
}

/// Chain src -> sync^(n-2) -> sink from VectorSource, AddConst, VectorSink.
/// Returns blocks in chain order, the sink hook, and the stream ids.
fn build_mt_chain(n: usize, total: usize, infinite: bool) -> (Vec<Box<dyn Block + Send>>, Hook, Vec<usize>) {
    let data: Vec<Big> = (1..=total as u64).map(Big::of).collect();
    let mut blocks: Vec<Box<dyn Block + Send>> = Vec::new();
    let mut ids = Vec::new();
    let (b, mut prev) = if infinite {
        VectorSourceBuilder::new(data).repeat(rustradio::Repeat::infinite()).build()
    } else {
        VectorSource::new(data)
    };
    blocks.push(Box::new(b));
    ids.push(StreamWait::verif_id(&prev));
    for _ in 0..n.saturating_sub(2) {
        let (b, o) = AddConst::new(prev, Big::of(1000));
        blocks.push(Box::new(b));
        ids.push(StreamWait::verif_id(&o));
        prev = o;
    }
    let sink = VectorSink::new(prev, 1 << 30);
    let hook = sink.hook();
    blocks.push(Box::new(sink));
    (blocks, hook, ids)
}

/// One MTGraph run under the controlled scheduler with a seeded random
/// schedule. `sched` (if given) is a list of thread names to prefer in order.
fn mt_run_one(cfg: &Value, out: &mut impl Write) -> usize {
    let n = cfg["n"].as_u64().unwrap() as usize;
    // total -1: an infinite source repeating 3 samples (ends only by cancellation)
    let infinite = cfg["total"].as_i64().unwrap() < 0;
    let total = if infinite { 3 } else { cfg["total"].as_u64().unwrap() as usize };
    let cap = cfg["cap"].as_u64().unwrap() as usize;
    let seed = cfg["seed"].as_u64().unwrap_or(1);
    let with_cancel = cfg["cancel"].as_bool().unwrap_or(false);
    let order: Vec<usize> = cfg["order"].as_array().map(|a| a.iter().map(|k| k.as_u64().unwrap() as usize).collect())
        .unwrap_or_else(|| (1..=n).collect());
    verif::set_thread_stream_size(cap * 4096);
    let (blocks, hook, ids) = build_mt_chain(n, total, infinite);
    let mut g = MTGraph::new();
    let tok = g.cancel_token();
    let mut slots: Vec<Option<Box<dyn Block + Send>>> = blocks.into_iter().map(Some).collect();
    for b in &order {
        let inner = slots[b - 1].take().unwrap();
        let inject = if cfg["fail"][0].as_u64() == Some(*b as u64) {
            Inject::Fail(cfg["fail"][1].as_u64().unwrap() as usize)
        } else {
            Inject::None
        };
        let (w, _c) = Wrap::new(inner, *b, inject);
        g.add(Box::new(Named { inner: w, name: format!("b{b}") }));
    }
    let ctl = verif::install_controller();
    verif::trace_start();
    let kinds_ref: Vec<String> = (0..n).map(|i| if i == 0 { "src_eof".to_string() } else if i == n - 1 { "sink".to_string() } else { "sync".to_string() }).collect();
    let want = reference(&kinds_ref, total);
    let main = std::thread::spawn(move || {
        verif::thread_start("main");
        let res = catch(|| g.run());
        let outcome = match &res {
            Ok(Ok(())) => "ok",
            Ok(Err(_)) => "err",
            Err(_) => "panic",
        };
        verif::emit(format!("\"ev\":\"mt_return\",\"outcome\":\"{outcome}\""));
    });
    while ctl.registered() < 1 {
        std::thread::yield_now();
    }
    let canc = if with_cancel {
        let h = std::thread::spawn(move || {
            verif::thread_start("canc");
            tok.cancel();
        });
        while ctl.registered() < 2 {
            std::thread::yield_now();
        }
        Some(h)
    } else {
        None
    };
    writeln!(out, "{}", json!({"t": "-", "pt": "config", "g": "go", "n": n, "total": if infinite { -1 } else { total as i64 }, "cap": cap,
        "fail": cfg["fail"], "cancel": with_cancel, "order": order, "streams": ids, "seed": seed, "evs": [], "exited": false, "b": 0})).unwrap();
    let sched: Vec<Value> = cfg["sched"].as_array().cloned().unwrap_or_default();
    let mut si = 0usize;
    let mut rng = Rng::new(seed);
    let stick = rng.below(4);
    let timeout_bias = rng.below(3); // 0: timeouts rare, 2: timeouts eager
    let mut last: Option<usize> = None;
    let mut steps = 1;
    let budget = 20_000; // fair runs need a few thousand grants at most
    // set when the run did not come to its natural end (deadlock / budget): the
    // remaining threads are parked for good and must not be joined
    let mut stuck = false;
    loop {
        let v = ctl.settle(1);
        if v.is_empty() {
            break;
        }
        let mut cands: Vec<(usize, Grant)> = Vec::new();
        for (i, tv) in v.iter().enumerate() {
            for gnt in &tv.enabled {
                // A timeout is always possible; weight it by the bias so that
                // schedules are neither all-timeouts nor timeout-free.
                if *gnt == Grant::Timeout && timeout_bias == 0 && v.len() > 1 && rng.below(8) != 0 {
                    continue;
                }
                cands.push((i, gnt.clone()));
            }
        }
        if cands.is_empty() {
            for (i, tv) in v.iter().enumerate() {
                for gnt in &tv.enabled {
                    cands.push((i, gnt.clone()));
                }
            }
        }
        if cands.is_empty() {
            writeln!(out, "{}", json!({"t": "-", "pt": "deadlock", "g": "go", "evs": [], "exited": false, "b": 0,
                "have": v.iter().map(|t| json!({"t": t.name, "pt": t.point.kind()})).collect::<Vec<_>>()})).unwrap();
            steps += 1;
            stuck = true;
            break;
        }
        let same: Vec<usize> = cands.iter().enumerate().filter(|(_, c)| Some(v[c.0].tid) == last).map(|(i, _)| i).collect();
        let mut pick = if !same.is_empty() && rng.below(4) < stick { same[rng.below(same.len())] } else { rng.below(cands.len()) };
        // A prescribed schedule (from the TLC transition graph) is followed as
        // long as it lasts; if the real threads cannot follow it, that is
        // recorded and the run stops.
        if si < sched.len() {
            let s = &sched[si];
            si += 1;
            let want_g = match s["g"].as_str().unwrap() {
                "timeout" => Grant::Timeout,
                "notified" => Grant::Notified,
                _ => Grant::Go,
            };
            let want_name = if s["t"] == "b" { format!("b{}", s["b"]) } else { s["t"].as_str().unwrap().to_string() };
            let found = v.iter().enumerate().find(|(_, t)| t.name == want_name).and_then(|(i, t)| {
                let pt = match &t.point { Point::Named(x) => x.to_string(), p => p.kind() };
                if pt == s["pt"].as_str().unwrap() && t.enabled.contains(&want_g) { Some(i) } else { None }
            });
            match found {
                Some(i) => {
                    cands.push((i, want_g));
                    pick = cands.len() - 1;
                }
                None => {
                    writeln!(out, "{}", json!({"t": "-", "pt": "diverged", "g": "go", "evs": [], "exited": false, "b": 0, "want": s,
                        "have": v.iter().map(|t| json!({"t": t.name, "pt": t.point.kind(), "en": t.enabled.iter().map(grant_name).collect::<Vec<_>>()})).collect::<Vec<_>>()})).unwrap();
                    steps += 1;
                    si = sched.len();
                }
            }
        }
        let (vi, gnt) = cands[pick].clone();
        let tv = v[vi].clone();
        last = Some(tv.tid);
        // block threads with a pending notification on offer before this grant
        let nf: Vec<usize> = v.iter().filter(|t| t.enabled.contains(&Grant::Notified))
            .filter_map(|t| t.name.strip_prefix('b').and_then(|x| x.parse().ok())).collect();
        ctl.grant(tv.tid, gnt.clone());
        let after = ctl.settle(1);
        let exited = !after.iter().any(|t| t.tid == tv.tid);
        let evs: Vec<Value> = verif::trace_drain().iter().map(|l| serde_json::from_str(l).unwrap()).collect();
        let b: usize = tv.name.strip_prefix('b').and_then(|x| x.parse().ok()).unwrap_or(0);
        let pt = match &tv.point {
            Point::Named(x) => x.to_string(),
            p => p.kind(),
        };
        writeln!(out, "{}", json!({"t": if b > 0 { "b".to_string() } else { tv.name.clone() }, "b": b, "pt": pt, "g": grant_name(&gnt), "evs": evs, "exited": exited, "nf": nf})).unwrap();
        steps += 1;
        if steps > budget {
            writeln!(out, "{}", json!({"t": "-", "pt": "budget", "g": "go", "evs": [], "exited": false, "b": 0})).unwrap();
            stuck = true;
            break;
        }
    }
    if stuck {
        verif::remove_controller();
        let _ = verif::trace_take();
        return steps;
    }
    let _ = main.join();
    if let Some(h) = canc {
        let _ = h.join();
    }
    verif::remove_controller();
    let _ = verif::trace_take();
    // The sink is read only now: every thread has finished (the sink block
    // holds its storage lock across scheduling points).
    let got: Vec<Option<u64>> = hook.data().samples().iter().map(|s| s.val()).collect();
    let prefix_ok = if infinite {
        let per: Vec<u64> = want.clone();
        got.iter().enumerate().all(|(i, a)| *a == Some(per[i % per.len()]))
    } else {
        got.len() <= want.len() && got.iter().zip(want.iter()).all(|(a, b)| *a == Some(*b))
    };
    writeln!(out, "{}", json!({"t": "-", "pt": "final", "g": "go", "evs": [], "exited": false, "b": 0,
        "got": got.len(), "prefix_ok": prefix_ok, "want": want.len()})).unwrap();
    steps + 1
}


/// mtgraph-run --configs FILE --out FILE
pub fn cmd_mt_run(args: &[String]) -> i32 {
    quiet_panics();
    let file = arg_val(args, "--configs").expect("--configs");
    let out = arg_val(args, "--out").expect("--out");
    let f = std::io::BufReader::new(std::fs::File::open(&file).expect("open"));
    let mut o = std::io::BufWriter::new(std::fs::File::create(&out).expect("create"));
    let (mut runs, mut steps) = (0, 0);
    for line in f.lines() {
        let line = line.unwrap();
        if line.trim().is_empty() {
            continue;
        }
        let cfg: Value = serde_json::from_str(&line).expect("json");
        steps += mt_run_one(&cfg, &mut o);
        runs += 1;
    }
    o.flush().unwrap();
    println!("{}", json!({"runs": runs, "steps": steps}));
    0
}
