"""Shared machinery for /verif/bin/check: building the harness, running TLC,
transition-cover computation, trace validation, evidence, known findings."""
import json, os, re, shutil, subprocess, sys, time, collections

VERIF = os.path.dirname(os.path.dirname(os.path.abspath(__file__)))
SPECS = os.path.join(VERIF, "specs")
HARNESS = os.path.join(VERIF, "harness")
VH = os.path.join(HARNESS, "target", "debug", "vh")
REPLAYS = os.path.join(VERIF, "replays")
EVIDENCE = os.path.join(VERIF, "evidence")
TLA_CP = "/opt/veriftools/tla/tla2tools.jar:/opt/veriftools/tla/CommunityModules-deps.jar"


class ToolError(Exception):
    """Something in the machinery (not the code under test) failed: exit 2."""


class Ctx:
    """Per-run context: property id, tier, seed, scratch dir, counters."""

    def __init__(self, prop, tier, seed):
        self.prop = prop
        self.tier = tier
        self.seed = seed
        self.t0 = time.time()
        self.work = os.path.join(VERIF, "work", f"{prop}-{os.getpid()}")
        shutil.rmtree(self.work, ignore_errors=True)
        os.makedirs(self.work)
        os.makedirs(REPLAYS, exist_ok=True)
        os.makedirs(EVIDENCE, exist_ok=True)
        self.violations = []      # (signature, description, replay path)
        self.sig_count = {}
        self.known_hit = []       # known findings seen
        self.cov = collections.OrderedDict(
            states=0, transitions=0, traces_validated_against_impl=0,
            evaluations=0, distinct_nontrivial=0, samples=[])
        self.assumptions = []
        self.notes = []
        self.known = load_known(prop)

    def thorough(self):
        return self.tier == "thorough"

    def path(self, name):
        return os.path.join(self.work, name)

    def cleanup(self):
        shutil.rmtree(self.work, ignore_errors=True)

    def sample(self, s, limit=6):
        if len(self.cov["samples"]) < limit:
            self.cov["samples"].append(s)

    def violation(self, signature, description, replay_src=None, replay_obj=None):
        """Record a violation. Known findings (matched by signature) are
        reported as KNOWN-FINDING, everything else as VIOLATION."""
        for k in self.known:
            if re.fullmatch(k["signature"], signature):
                if k not in self.known_hit:
                    self.known_hit.append(k)
                return False
        self.sig_count[signature] = self.sig_count.get(signature, 0) + 1
        if self.sig_count[signature] > 2:
            return True   # already reported twice under this signature
        n = len(self.violations)
        dst = os.path.join(REPLAYS, f"{self.prop}-{int(self.t0)}-{n}.json")
        if replay_src and os.path.exists(replay_src):
            shutil.copy(replay_src, dst)
        else:
            with open(dst, "w") as f:
                json.dump({"property": self.prop, "signature": signature,
                           "description": description, "replay": replay_obj}, f, indent=1)
        self.violations.append((signature, description, dst))
        return True


def load_known(prop):
    p = os.path.join(VERIF, "known_findings.json")
    if not os.path.exists(p):
        return []
    with open(p) as f:
        d = json.load(f)
    return [k for k in d.get("open", []) if k["property"] == prop]


# ----------------------------------------------------------------- harness

_built = False


def build_harness():
    """Rebuild the harness (and rustradio with the hooks on) from /repo's
    current working tree."""
    global _built
    if _built:
        return
    lock_src = "/repo/Cargo.lock"
    lock_dst = os.path.join(HARNESS, "Cargo.lock")
    if not os.path.exists(lock_dst):
        shutil.copy(lock_src, lock_dst)
    env = dict(os.environ, CARGO_NET_OFFLINE="true")
    r = subprocess.run(["cargo", "build", "--offline", "--quiet"], cwd=HARNESS, env=env,
                       stdout=subprocess.PIPE, stderr=subprocess.STDOUT, text=True)
    if r.returncode != 0 and not any(l.startswith("error[") for l in r.stdout.splitlines()):
        # not a compile error (killed compiler, lock time-out on a loaded machine): once more
        time.sleep(5)
        r = subprocess.run(["cargo", "build", "--offline", "--quiet"], cwd=HARNESS, env=env,
                           stdout=subprocess.PIPE, stderr=subprocess.STDOUT, text=True)
    if r.returncode != 0:
        errs = [l for l in r.stdout.splitlines() if l.startswith("error")][:10]
        raise ToolError("harness build failed (does /repo still compile with --cfg rustradio_verif?):\n"
                        + "\n".join(errs) + "\n" + r.stdout[-3000:])
    _built = True


def vh(args, timeout=600, stdin=None, env=None, check=True):
    """Run the harness binary; return (exit code, stdout)."""
    build_harness()
    e = dict(os.environ)
    if env:
        e.update(env)
    try:
        r = subprocess.run([VH] + [str(a) for a in args], stdout=subprocess.PIPE, stderr=subprocess.PIPE,
                           text=True, timeout=timeout, input=stdin, env=e)
    except subprocess.TimeoutExpired:
        raise ToolError(f"harness timed out: vh {' '.join(map(str, args))}")
    if check and r.returncode != 0:
        raise ToolError(f"harness failed ({r.returncode}): vh {' '.join(map(str, args))}\n{r.stderr[-2000:]}")
    return r.returncode, r.stdout


def vh_json(args, **kw):
    code, out = vh(args, **kw)
    lines = [l for l in out.splitlines() if l.startswith("{")]
    if not lines:
        raise ToolError(f"harness gave no JSON: vh {' '.join(map(str, args))}\n{out[-500:]}")
    return json.loads(lines[-1])


# --------------------------------------------------------------------- TLC

class TlcResult:
    def __init__(self, code, out):
        self.code = code
        self.out = out
        m = re.search(r"(\d+) states generated, (\d+) distinct states found", out)
        self.generated = int(m.group(1)) if m else 0
        self.distinct = int(m.group(2)) if m else 0
        self.violated = re.findall(r"Error: (?:Invariant|Action property|Temporal properties?) ?(\S*) ?(?:is|were) violated", out)
        self.ok = code == 0 and "No error has been found" in out or (code == 0 and "Error:" not in out)

    def lines(self, tag):
        """Lines printed by PrintT(<<tag, json>>): returns the JSON strings."""
        res = []
        pre = f'<<"{tag}", "'
        for l in self.out.splitlines():
            if l.startswith(pre) and l.endswith('">>'):
                s = l[len(pre):-3]
                res.append(re.sub(r'\\(.)', r'\1', s))
        return res


def write_cfg(path, constants, spec="Spec", invariants=(), properties=(), constraint=None,
              postcondition=None, view=None, extra=""):
    with open(path, "w") as f:
        if constants:
            f.write("CONSTANTS\n")
            for k, v in constants.items():
                f.write(f"  {k} = {v}\n")
        f.write(f"SPECIFICATION {spec}\n")
        for i in invariants:
            f.write(f"INVARIANT {i}\n")
        for p in properties:
            f.write(f"PROPERTY {p}\n")
        if constraint:
            f.write(f"CONSTRAINT {constraint}\n")
        if postcondition:
            f.write(f"POSTCONDITION {postcondition}\n")
        if view:
            f.write(f"VIEW {view}\n")
        f.write("CHECK_DEADLOCK FALSE\n")
        f.write(extra)


def tlc(ctx, module, cfg_path, workers=8, timeout=900, env=None, simulate=None, dfs=False,
        xmx="8g", extra_args=()):
    """Run TLC on specs/<module>.tla with the given cfg, in a scratch dir."""
    import tempfile
    d = tempfile.mkdtemp(prefix=f"tlc-{module}-", dir=ctx.work)
    for fn in os.listdir(SPECS):
        if fn.endswith(".tla"):
            shutil.copy(os.path.join(SPECS, fn), d)
    shutil.copy(cfg_path, os.path.join(d, module + ".cfg"))
    jopts = "-Xss1g"
    if dfs:
        jopts += " -Dtlc2.tool.queue.IStateQueue=StateDeque"
    e = dict(os.environ, JAVA_TOOL_OPTIONS=jopts)
    if env:
        e.update({k: str(v) for k, v in env.items()})
    cmd = ["java", f"-Xmx{xmx}", "-XX:+UseParallelGC", "-cp", TLA_CP, "tlc2.TLC",
           "-workers", str(workers), "-metadir", os.path.join(d, "md"), "-cleanup",
           "-noGenerateSpecTE", "-config", module + ".cfg"]
    if simulate:
        cmd += ["-simulate", simulate]
    cmd += list(extra_args) + [module + ".tla"]
    try:
        r = subprocess.run(cmd, cwd=d, env=e, stdout=subprocess.PIPE, stderr=subprocess.STDOUT,
                           text=True, timeout=timeout)
    except subprocess.TimeoutExpired:
        shutil.rmtree(d, ignore_errors=True)
        raise ToolError(f"TLC timed out after {timeout}s on {module}")
    out = r.stdout
    shutil.rmtree(d, ignore_errors=True)
    if r.returncode not in (0, 12, 13) :
        # 12 = safety violation, 13 = liveness violation; others: tool error
        if "is violated" not in out and "POSTCONDITION" not in out.upper():
            raise ToolError(f"TLC failed ({r.returncode}) on {module}:\n{out[-3000:]}")
    return TlcResult(r.returncode, out)


def sany(module):
    r = subprocess.run(["java", "-cp", TLA_CP, "tla2sany.SANY", module + ".tla"], cwd=SPECS,
                       stdout=subprocess.PIPE, stderr=subprocess.STDOUT, text=True)
    return r.returncode == 0 and "Semantic errors" not in r.stdout and "Parse Error" not in r.stdout, r.stdout


# -------------------------------------------------------- transition cover

def cover_paths(edges, init_key=None, key=lambda st: json.dumps(st, sort_keys=True)):
    """edges: list of dicts {from, act, to}. Returns a list of paths (lists of
    edges) starting at the initial state that together traverse every distinct
    edge at least once. Greedy: walk along untraversed edges as long as
    possible; when stuck go (via the BFS tree) to the nearest state that still
    has untraversed out-edges, or restart from the initial state."""
    out = collections.defaultdict(list)
    seen = set()
    distinct = []
    for e in edges:
        kf, kt = key(e["from"]), key(e["to"])
        sig = (kf, json.dumps(e["act"], sort_keys=True), kt)
        if sig in seen:
            continue
        seen.add(sig)
        e["_kf"], e["_kt"] = kf, kt
        out[kf].append(e)
        distinct.append(e)
    if not distinct:
        return [], 0
    if init_key is None:
        tos = set(e["_kt"] for e in distinct)
        inits = [k for k in out if k not in tos]
        init_key = inits[0] if inits else distinct[0]["_kf"]
    # BFS tree from init
    parent = {init_key: None}
    dq = collections.deque([init_key])
    while dq:
        u = dq.popleft()
        for e in out.get(u, []):
            if e["_kt"] not in parent:
                parent[e["_kt"]] = e
                dq.append(e["_kt"])

    def path_to(k):
        p = []
        while parent[k] is not None:
            p.append(parent[k])
            k = parent[k]["_kf"]
        return p[::-1]
    nxt = {k: 0 for k in out}          # index of next untraversed edge per state
    pending = collections.OrderedDict((k, True) for k in out if k in parent)
    paths = []
    while pending:
        start = next(iter(pending))
        path = path_to(start)
        cur = start
        while cur in out and nxt[cur] < len(out[cur]):
            e = out[cur][nxt[cur]]
            nxt[cur] += 1
            if nxt[cur] >= len(out[cur]):
                pending.pop(cur, None)
            path.append(e)
            cur = e["_kt"]
        paths.append(path)
    return paths, len(distinct)


def strip(e):
    return {k: v for k, v in e.items() if not k.startswith("_")}


# ---------------------------------------------------------- trace checking

def validate_trace(ctx, module, trace_path, constants, invariants=(), env=None, timeout=900, xmx="4g"):
    """Validate one ndjson trace against specs/<module>.tla (a *_Trace module
    with TraceSpec / TraceAccepted). Returns (accepted, info)."""
    cfg = ctx.path(f"{module}-{os.path.basename(trace_path)}.cfg")
    write_cfg(cfg, constants, spec="TraceSpec", invariants=invariants, postcondition="TraceAccepted")
    e = {"TRACE": trace_path}
    if env:
        e.update(env)
    r = tlc(ctx, module, cfg, workers=1, timeout=timeout, env=e, dfs=True, xmx=xmx)
    info = {"distinct": r.distinct, "generated": r.generated}
    rej = [l for l in r.out.splitlines() if "TRACE-REJECTED" in l]
    inv = r.violated
    accepted = r.code == 0 and not rej and not inv and "Error:" not in r.out
    if not accepted:
        info["rejected"] = rej[:3]
        info["violated"] = inv
        info["tail"] = r.out[-1500:]
    return accepted, info


# ---------------------------------------------------------------- evidence

def finish(ctx, level, extra_cov=None, exhaustive=None, explanation=None):
    """Print findings, write the evidence file, clean up, return exit code."""
    cov = dict(ctx.cov)
    if extra_cov:
        cov.update(extra_cov)
    if exhaustive is not None:
        cov["exhaustive"] = exhaustive
    if explanation:
        cov["explanation"] = explanation
    if ctx.notes:
        cov["notes"] = ctx.notes
    if not cov.get("samples"):
        cov["samples"] = ["(none recorded)"]
    for k in ctx.known_hit:
        print(f"KNOWN-FINDING: property={ctx.prop} {k['description']}")
    for sig, desc, path in ctx.violations:
        print(f"VIOLATION property={ctx.prop} replay={path}")
        print(f"  {sig} (x{ctx.sig_count.get(sig, 1)}): {desc}")
    ev = {
        "property_id": ctx.prop,
        "tier": ctx.tier,
        "seed": ctx.seed,
        "level": level,
        "coverage": cov,
        "assumptions": ctx.assumptions,
        "wall_s": round(time.time() - ctx.t0, 2),
        "violations": len(ctx.violations),
        "known_findings_seen": [k["signature"] for k in ctx.known_hit],
    }
    with open(os.path.join(EVIDENCE, f"{ctx.prop}.json"), "w") as f:
        json.dump(ev, f, indent=1)
    ctx.cleanup()
    print(f"{ctx.prop} {ctx.tier}: states={cov.get('states')} transitions={cov.get('transitions')} "
          f"traces={cov.get('traces_validated_against_impl')} evaluations={cov.get('evaluations')} "
          f"violations={len(ctx.violations)} known={len(ctx.known_hit)} wall={ev['wall_s']}s")
    return 1 if ctx.violations else 0
