--------------------------- MODULE BlockContract ---------------------------
(* A block as a transducer between input and output streams, driven by an  *)
(* environment that owns the far ends of the streams (the drip-feed bench,  *)
(* harness/src/bench.rs):                                                   *)
(*    Feed(i, k)   commit k more samples of input i                         *)
(*    Drain(j, k)  consume k samples from output j                          *)
(*    CloseIn(i)   drop the write side of input i                           *)
(*    DropOut(j)   drop the read side of output j                           *)
(*    Work         one work() call; it consumes c[i] <= avail[i], commits   *)
(*                 p[j] <= space[j] and returns a verdict                   *)
(* This module (a) is a small closed model whose behaviours are the         *)
(* environment schedules TLC enumerates for replay on every block, with a   *)
(* most general contract-abiding block, and (b) defines the contract        *)
(* predicates used by BlockContract_Trace to judge recorded work() calls.   *)
(*                                                                          *)
(* Properties served: C08 (purity), C09 (truthful verdicts), C12 (tags),    *)
(* C19 (derive-generated sync blocks).                                      *)
EXTENDS BlockContractDefs

CONSTANTS Cap,       \* stream capacity used for schedule enumeration
          Total,     \* input length
          Depth,     \* schedule length
          Ks         \* feed / drain step sizes enumerated

VARIABLES left, inAvail, outBuf, closed, sched, works

vars == <<left, inAvail, outBuf, closed, sched, works>>

MinOf(a, b) == IF a < b THEN a ELSE b

Init == left = Total /\ inAvail = 0 /\ outBuf = 0 /\ closed = FALSE /\ sched = <<>> /\ works = 0

(* Environment schedule steps. Amounts are requests; the bench clamps them  *)
(* to what is possible, so a schedule is meaningful for every block.        *)
Feed(k) ==
  /\ Len(sched) < Depth /\ ~closed /\ left > 0 /\ inAvail < Cap
  /\ LET n == MinOf(MinOf(k, left), Cap - inAvail) IN
     /\ left' = left - n /\ inAvail' = inAvail + n
  /\ sched' = Append(sched, [op |-> "feed", i |-> 1, k |-> k])
  /\ UNCHANGED <<outBuf, closed, works>>
Drain(k) ==
  /\ Len(sched) < Depth /\ outBuf > 0
  /\ outBuf' = outBuf - MinOf(k, outBuf)
  /\ sched' = Append(sched, [op |-> "drain", j |-> 1, k |-> k])
  /\ UNCHANGED <<left, inAvail, closed, works>>
(* Most general 1:1 block for the purpose of enumeration: moves any amount  *)
(* allowed by the contract.                                                 *)
EnvWork ==
  /\ Len(sched) < Depth
  /\ \E n \in {0, MinOf(inAvail, Cap - outBuf)} :
       inAvail' = inAvail - n /\ outBuf' = outBuf + n
  /\ sched' = Append(sched, [op |-> "work"])
  /\ works' = works + 1
  /\ UNCHANGED <<left, closed>>

Next == (\E k \in Ks : Feed(k)) \/ (\E k \in Ks : Drain(k)) \/ EnvWork
Spec == Init /\ [][Next]_vars

(* Schedules worth replaying: full length, or the input is used up; with    *)
(* at least two work() calls and never two works in a row without an        *)
(* environment step in between only at the end.                             *)
Interesting == (Len(sched) = Depth \/ (left = 0 /\ inAvail = 0)) /\ works >= 2

=============================================================================
