------------------------------ MODULE GraphSem ------------------------------
(* Denotational semantics of a flow graph of deterministic blocks (C05,     *)
(* C06): every node is a function from its input sequences to its output    *)
(* sequences (BlockFns.tla, Hdlc.tla); the meaning of the graph is the      *)
(* composition along its edges, independent of buffering, scheduling and    *)
(* add order. This is the "sequential reference execution" the runners are  *)
(* compared with.                                                           *)
(*  g: sequence of nodes [kind, p, ins], ins = sequence of <<node, port>>   *)
(*  referring to earlier nodes (topological order). Packet streams are      *)
(*  carried flattened (-1 before each packet).                              *)
EXTENDS Integers, Sequences, FiniteSets, TLC
F == INSTANCE BlockFns
H == INSTANCE Hdlc

Flatten(pkts) == F!Concat([i \in 1 .. Len(pkts) |-> <<-1>> \o pkts[i]])
(* a packet given as length and fill byte *)
PktBytes(len, fill) == [i \in 1 .. len |-> (fill + ((i - 1) % 7)) % 256]
Apply(kind, p, ins) ==
  CASE kind \in {"src_u8", "src_big", "src_f", "src_c"} -> << p.data >>
    [] kind \in {"fftfiltf", "fftfiltc"} -> F!FftFiltFn(p, ins)
    [] kind = "src_pkt" -> << Flatten([k \in 1 .. Len(p.pkts) |-> PktBytes(p.pkts[k][1], p.pkts[k][2])]) >>
    [] kind = "firf" -> F!FirFn(p, ins)
    [] kind = "addconst" -> F!Lin([coef |-> <<<<1>>>>, const |-> <<p.val>>], ins)
    [] kind = "add" -> F!Lin([coef |-> <<<<1, 1>>>>, const |-> <<0>>], ins)
    [] kind = "tee" -> F!TeeFn(p, ins)
    [] kind = "resample" -> F!Resample(p, ins)
    [] kind = "delay" -> F!DelayFn(p, ins)
    [] kind = "skip" -> F!SkipFn(p, ins)
    [] kind = "xorconst" -> F!XorFn(p, ins)
    [] kind = "xor" -> F!XorFn(p, ins)
    [] kind = "nrzi" -> F!Nrzi(p, ins)
    [] kind = "descramble" -> F!Descramble(p, ins)
    [] kind = "hdlc" -> << Flatten(H!Deframe([min |-> p.min, max |-> p.max, check |-> TRUE, fix |-> FALSE], ins[1])) >>
    [] kind = "v2s" -> F!V2S(p, ins)
    [] kind = "slow" -> << ins[1] >>
    [] kind = "sink" -> << ins[1] >>

(* TLC keeps [k \in S |-> e] as an unevaluated function: applying it re-evaluates *)
(* e, so a chain of such blocks costs the product of their fan-ins. SubSeq builds  *)
(* an explicit tuple.                                                             *)
Force(outs) == [j \in 1 .. Len(outs) |-> SubSeq(outs[j], 1, Len(outs[j]))]
(* values of nodes 1..k, each computed once *)
RECURSIVE ValsUpTo(_, _)
ValsUpTo(g, k) ==
  IF k = 0 THEN <<>>
  ELSE LET prev == ValsUpTo(g, k - 1)
           n == g[k]
           ins == [i \in 1 .. Len(n.ins) |-> prev[n.ins[i][1]][n.ins[i][2]]]
       IN Append(prev, TLCEval(Force(Apply(n.kind, n.p, ins))))
(* what sink node i must hold when the run is over *)
SinkContent(g, i) == ValsUpTo(g, i)[i][1]
=============================================================================
