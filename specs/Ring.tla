------------------------------- MODULE Ring -------------------------------
(* One rustradio stream (src/circular_buffer.rs Buffer<T> behind            *)
(* ReadStream/WriteStream) used by one disciplined writer and one           *)
(* disciplined reader, sequentially interleaved.                            *)
(*                                                                          *)
(* One action per critical section of the code:                             *)
(*   AcqW      Buffer::write_buf     snapshot (wpos, wpos+free)             *)
(*   Commit    Buffer::produce       (client wrote k samples first)         *)
(*   AcqR      Buffer::read_buf      snapshot (rpos, rpos+used) + tags      *)
(*   Consume   Buffer::consume                                              *)
(*   *Refused  the assert!() inside the critical section of produce/consume *)
(*             fires: panic while holding the mutex => poisoned.            *)
(* Samples are abstract ids 1,2,3,... in commit order; a tag committed as   *)
(* the j-th tag of absolute sample i (1-based) has id 10*i + j.             *)
(*                                                                          *)
(* Properties: C01 (InvCount, InvContents, InvWindows, refusals),           *)
(*             C02 (InvTags, TagsOnConsume).                                *)
EXTENDS Integers, Sequences, FiniteSets, TLC

CONSTANTS Cap,        \* ring capacity in samples
          MaxTotal,   \* bound on samples ever committed (model bound only)
          MaxTags,    \* max tags per commit (model bound only)
          Quirks      \* set of modelled deviations of the code; {} = the property

VARIABLES rpos, wpos, used,  \* BufferState
          mem,               \* cell -> sample id (0 = never written)
          tags,              \* cell -> Seq(tag id)      (BufferState.tags)
          produced, consumed,\* absolute counts
          wwin,              \* live write window: <<>> or <<start, len>>
          rwin,              \* live read window: <<>> or <<start, len, contents, tags>>
          wstale,            \* a second, older write window still held: <<>> or <<start, len>>
          rstale,            \* a second read window still held: <<>> or <<start, len>>
          poisoned

vars == <<rpos, wpos, used, mem, tags, produced, consumed, wwin, rwin, wstale, rstale, poisoned>>

Cells == 0 .. (Cap - 1)
Free  == Cap - used
Min(a, b) == IF a < b THEN a ELSE b

Init == /\ rpos = 0 /\ wpos = 0 /\ used = 0
        /\ mem = [c \in Cells |-> 0]
        /\ tags = [c \in Cells |-> <<>>]
        /\ produced = 0 /\ consumed = 0
        /\ wwin = <<>> /\ rwin = <<>> /\ wstale = <<>> /\ rstale = <<>>
        /\ poisoned = FALSE

---------------------------------------------------------------------------
(* What a reader is shown: contents of [rpos, rpos+used) through the       *)
(* double mapping (index i of the 2*Cap array is cell i % Cap).            *)
WindowCells(start, len) == [k \in 1 .. len |-> (start + k - 1) % Cap]
Contents(start, len) == [k \in 1 .. len |-> mem[(start + k - 1) % Cap]]

(* read_buf's tag list: for every stored tag in the window, (relative      *)
(* position, id), sorted by relative position, commit order within one     *)
(* position (BTreeMap order + Vec order + stable sort).                    *)
RECURSIVE TagList(_, _, _)
TagList(start, len, k) ==
  IF k > len THEN <<>>
  ELSE LET c == (start + k - 1) % Cap
           here == [j \in 1 .. Len(tags[c]) |-> <<k - 1, tags[c][j]>>]
       IN here \o TagList(start, len, k + 1)

---------------------------------------------------------------------------
AcqW ==
  /\ ~poisoned /\ wwin = <<>> /\ wstale = <<>>
  /\ ~(rwin # <<>> /\ rstale # <<>>)       \* at most four references to the buffer
  /\ wwin' = <<wpos, Free>>
  /\ UNCHANGED <<rpos, wpos, used, mem, tags, produced, consumed, rwin, poisoned, wstale, rstale>>

(* The client writes k <= window length samples starting at the window     *)
(* start, then commits n <= k of them with tags tg: a sequence of          *)
(* <<relative position < n, ordinal>>, in commit order.                    *)
Commit(k, n, tg) ==
  /\ ~poisoned /\ wwin # <<>>
  /\ k <= wwin[2] /\ n <= k /\ n >= 1
  /\ produced + k <= MaxTotal
  /\ \A i \in 1 .. Len(tg) : tg[i][1] < n
  /\ mem' = [c \in Cells |->
               LET rel == (c + Cap - wwin[1]) % Cap IN
               IF rel < k THEN produced + rel + 1 ELSE mem[c]]
  /\ tags' = [c \in Cells |->
               LET rel == (c + Cap - wpos) % Cap IN
               IF rel >= n THEN tags[c]
               ELSE LET idxs == {i \in 1 .. Len(tg) : tg[i][1] = rel}
                        new == [i \in 1 .. Cardinality(idxs) |->
                                  LET ith == CHOOSE x \in idxs :
                                        Cardinality({y \in idxs : y < x}) = i - 1
                                  IN 10 * (produced + rel + 1) + tg[ith][2]]
                    IN tags[c] \o new]
  /\ wpos' = (wpos + n) % Cap
  /\ used' = used + n
  /\ produced' = produced + n
  /\ wwin' = <<>>
  /\ UNCHANGED <<rpos, consumed, rwin, poisoned, wstale, rstale>>

(* produce(0, no tags): returns before taking the lock. Window is dropped. *)
CommitZero ==
  /\ ~poisoned /\ wwin # <<>>
  /\ wwin' = <<>>
  /\ UNCHANGED <<rpos, wpos, used, mem, tags, produced, consumed, rwin, poisoned, wstale, rstale>>

(* Dropping a window without committing.                                   *)
DropW ==
  /\ ~poisoned /\ wwin # <<>>
  /\ wwin' = <<>>
  /\ UNCHANGED <<rpos, wpos, used, mem, tags, produced, consumed, rwin, poisoned, wstale, rstale>>

(* produce(n) with n larger than what is free: assert inside the lock.     *)
CommitRefused(n) ==
  /\ ~poisoned /\ wwin # <<>>
  /\ n > Free
  /\ poisoned' = TRUE /\ wwin' = <<>>
  /\ UNCHANGED <<rpos, wpos, used, mem, tags, produced, consumed, rwin, wstale, rstale>>

AcqR ==
  /\ ~poisoned /\ rwin = <<>>
  /\ ~(wwin # <<>> /\ wstale # <<>>)   \* at most four references to the buffer
  /\ ~(rstale # <<>> /\ (wwin # <<>> \/ wstale # <<>>))
  /\ rwin' = <<rpos, used, Contents(rpos, used), TagList(rpos, used, 1)>>
  /\ UNCHANGED <<rpos, wpos, used, mem, tags, produced, consumed, wwin, poisoned, wstale, rstale>>

Consume(m) ==
  /\ ~poisoned /\ rwin # <<>>
  /\ m <= rwin[2] /\ m <= used
  /\ tags' = [c \in Cells |->
                IF "consume0_wipes_tags" \in Quirks /\ m = 0 THEN <<>>
                ELSE IF (c + Cap - rpos) % Cap < m THEN <<>> ELSE tags[c]]
  /\ rpos' = (rpos + m) % Cap
  /\ used' = used - m
  /\ consumed' = consumed + m
  /\ rwin' = <<>>
  /\ UNCHANGED <<wpos, mem, produced, wwin, poisoned, wstale, rstale>>

DropR ==
  /\ ~poisoned /\ rwin # <<>>
  /\ rwin' = <<>>
  /\ UNCHANGED <<rpos, wpos, used, mem, tags, produced, consumed, wwin, poisoned, wstale, rstale>>

ConsumeRefused(m) ==
  /\ ~poisoned /\ rwin # <<>>
  /\ m > used
  /\ poisoned' = TRUE /\ rwin' = <<>>
  /\ UNCHANGED <<rpos, wpos, used, mem, tags, produced, consumed, wwin, wstale, rstale>>

(* The stream API allows a second write window while the first is still   *)
(* held (the reference count check admits it when no read window is live). *)
(* The older window is then stale; the only thing the model says about it  *)
(* is that a commit through it larger than what is free NOW is refused.    *)
AcqW2 ==
  /\ ~poisoned /\ wwin # <<>> /\ wstale = <<>> /\ rwin = <<>> /\ rstale = <<>>
  /\ wstale' = <<wpos, Free>>
  /\ UNCHANGED <<rpos, wpos, used, mem, tags, produced, consumed, wwin, rwin, poisoned, rstale>>
StaleCommitRefused(n) ==
  /\ ~poisoned /\ wstale # <<>> /\ wwin = <<>>
  /\ n <= wstale[2] /\ n > Free
  /\ poisoned' = TRUE /\ wstale' = <<>>
  /\ UNCHANGED <<rpos, wpos, used, mem, tags, produced, consumed, wwin, rwin, rstale>>
DropStale ==
  /\ ~poisoned /\ wstale # <<>>
  /\ wstale' = <<>>
  /\ UNCHANGED <<rpos, wpos, used, mem, tags, produced, consumed, wwin, rwin, poisoned, rstale>>

---------------------------------------------------------------------------
(* The stream API also allows a second read window while the first is held  *)
(* (when no write window is live). Both are snapshots of the same region;   *)
(* after a consume through one of them the other is stale. A consume        *)
(* through a stale window acts on the live state: it takes the next m       *)
(* samples if that many are buffered, and is refused otherwise.             *)
AcqR2 ==
  /\ ~poisoned /\ rwin # <<>> /\ rstale = <<>> /\ wwin = <<>> /\ wstale = <<>>
  /\ rstale' = <<rpos, used>>
  /\ UNCHANGED <<rpos, wpos, used, mem, tags, produced, consumed, wwin, rwin, wstale, poisoned>>
ConsumeStale(m) ==
  /\ ~poisoned /\ rstale # <<>> /\ rwin = <<>>
  /\ m <= rstale[2] /\ m <= used
  /\ tags' = [c \in Cells |-> IF (c + Cap - rpos) % Cap < m /\ m > 0 THEN <<>> ELSE tags[c]]
  /\ rpos' = (rpos + m) % Cap
  /\ used' = used - m
  /\ consumed' = consumed + m
  /\ rstale' = <<>>
  /\ UNCHANGED <<wpos, mem, produced, wwin, rwin, wstale, poisoned>>
StaleConsumeRefused(m) ==
  /\ ~poisoned /\ rstale # <<>> /\ rwin = <<>>
  /\ m <= rstale[2] /\ m > used
  /\ poisoned' = TRUE /\ rstale' = <<>>
  /\ UNCHANGED <<rpos, wpos, used, mem, tags, produced, consumed, wwin, rwin, wstale>>
DropStaleR ==
  /\ ~poisoned /\ rstale # <<>>
  /\ rstale' = <<>>
  /\ UNCHANGED <<rpos, wpos, used, mem, tags, produced, consumed, wwin, rwin, wstale, poisoned>>

(* Tag placements explored: at most MaxTags tags per commit, on any        *)
(* positions < n (including several on one sample), ordinals 1..MaxTags.   *)
TagSeqs(n) ==
  {<<>>} \cup
  (IF MaxTags >= 1 THEN {<<<<p, 1>>>> : p \in 0 .. (n - 1)} ELSE {}) \cup
  (IF MaxTags >= 2
   THEN {<<<<p, 1>>, <<q, 2>>>> : p \in 0 .. (n - 1), q \in 0 .. (n - 1)}
   ELSE {})

Next ==
  \/ AcqW
  \/ \E n \in 1 .. Cap : \E k \in {n, n + 1} : \E tg \in TagSeqs(n) : Commit(k, n, tg)
  \/ CommitZero
  \/ DropW
  \/ \E n \in 1 .. (Cap + 1) : CommitRefused(n)
  \/ AcqR
  \/ \E m \in 0 .. Cap : Consume(m)
  \/ DropR
  \/ \E m \in 1 .. (Cap + 1) : ConsumeRefused(m)
  \/ AcqW2 \/ DropStale
  \/ \E n \in 1 .. Cap : StaleCommitRefused(n)
  \/ AcqR2 \/ DropStaleR
  \/ \E m \in 0 .. Cap : ConsumeStale(m)
  \/ \E m \in 1 .. Cap : StaleConsumeRefused(m)

Spec == Init /\ [][Next]_vars

---------------------------------------------------------------------------
(* C01 *)
InvCount == used + Free = Cap /\ used \in 0 .. Cap /\ used = produced - consumed

InvPos == /\ rpos \in Cells /\ wpos \in Cells
          /\ wpos = (rpos + used) % Cap

(* The reader is shown exactly the committed-and-not-yet-consumed ids.     *)
InvContents == \A k \in 1 .. used : mem[(rpos + k - 1) % Cap] = consumed + k

(* A live read window still shows what it showed when taken, and is a      *)
(* prefix of the readable region; a live write window lies in free space.  *)
InvWindows ==
  /\ rwin # <<>> =>
       /\ rwin[1] = rpos /\ rwin[2] <= used
       /\ \A k \in 1 .. rwin[2] : mem[(rwin[1] + k - 1) % Cap] = rwin[3][k]
       /\ \A k \in 1 .. rwin[2] : rwin[3][k] = consumed + k
  /\ wwin # <<>> =>
       /\ wwin[1] = wpos /\ wwin[2] <= Free
       /\ \A j \in 0 .. (wwin[2] - 1) : (wwin[1] + j + Cap - rpos) % Cap >= used

(* C02: every stored tag sits on a buffered sample and is a tag that was   *)
(* committed with exactly that absolute sample; order within a sample is   *)
(* commit order (ordinals increase).                                       *)
InvTags ==
  \A c \in Cells :
    LET rel == (c + Cap - rpos) % Cap IN
    /\ Len(tags[c]) > 0 => rel < used
    /\ \A j \in 1 .. Len(tags[c]) :
         /\ tags[c][j] \div 10 = consumed + rel + 1
         /\ j > 1 => tags[c][j] % 10 > tags[c][j - 1] % 10

(* Action property: a consume of m discards exactly the tags of those m.   *)
TagsOnConsume ==
  [][ (rwin # <<>> /\ rwin' = <<>> /\ ~poisoned' /\ used' <= used) =>
        \A c \in Cells :
          LET rel == (c + Cap - rpos) % Cap IN
          IF rel < used - used' THEN tags'[c] = <<>> ELSE tags'[c] = tags[c] ]_vars

(* Refusal never changes the data. *)
RefusalKeeps ==
  [][ poisoned' /\ ~poisoned =>
        /\ mem' = mem /\ rpos' = rpos /\ wpos' = wpos /\ used' = used /\ tags' = tags ]_vars

Inv == InvCount /\ InvPos /\ InvContents /\ InvWindows /\ InvTags
=============================================================================
