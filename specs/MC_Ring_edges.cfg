CONSTANTS
  Cap = 2
  MaxTotal = 6
  MaxTags = 2
  Quirks = {}
SPECIFICATION SpecE
INVARIANT Inv
CHECK_DEADLOCK FALSE
