--------------------------- MODULE GraphSem_Trace ---------------------------
(* Result-level conformance of the runners (C05: MTGraph on OS threads and   *)
(* under controlled schedules; C06: Graph): a run of a generated graph must  *)
(* end (no deadlock, no step budget exhausted), return Ok, leave no thread   *)
(* behind, and every sink must hold exactly GraphSem!SinkContent.            *)
EXTENDS Integers, Sequences, FiniteSets, TLC, Json, IOUtils, TLCExt
S == INSTANCE GraphSem
VARIABLES l, g, seen
Rec == ndJsonDeserialize(IOEnv.TRACE)
Chk(p, label) == IF p THEN TRUE ELSE PrintT("CHECK-FAILED " \o ToString(l) \o " " \o label)
TraceInit == l = 1 /\ g = <<>> /\ seen = {}
SinkNodes == {i \in 1 .. Len(g) : g[i].kind = "sink"}
Ev(e) ==
  IF e.ev = "graph" THEN g' = e.nodes /\ seen' = {}
  ELSE IF e.ev = "sink" THEN
       /\ Chk(e.data = S!SinkContent(g, e.node), "sink_differs_from_reference")
       /\ seen' = seen \cup {e.node} /\ UNCHANGED g
  ELSE \* done
       /\ Chk(e.end = "done", IF e.end = "deadlock" THEN "deadlock" ELSE "no_termination")
       /\ Chk(e.end # "done" \/ e.outcome = "ok", "run_failed")
       /\ Chk(e.end # "done" \/ e.exited, "thread_left")
       /\ Chk(e.end # "done" \/ seen = SinkNodes, "sink_missing")
       /\ UNCHANGED <<g, seen>>
TraceNext == l <= Len(Rec) /\ Ev(Rec[l]) /\ l' = l + 1
TraceSpec == TraceInit /\ [][TraceNext]_<<l, g, seen>>
TraceAccepted ==
  LET d == TLCGet("stats").diameter IN
  IF d - 1 = Len(Rec) THEN TRUE ELSE PrintT("TRACE-REJECTED at event " \o ToString(d)) /\ FALSE
=============================================================================
