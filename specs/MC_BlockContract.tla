-------------------------- MODULE MC_BlockContract --------------------------
(* Export of the environment schedules of BlockContract (one JSON line per  *)
(* schedule) for replay on every block type by the drip-feed bench.         *)
EXTENDS BlockContract, Json
KsDef == {1, 2, 4}
Export == Interesting => PrintT(<<"SCHED", ToJson(sched)>>)
=============================================================================
