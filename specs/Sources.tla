------------------------------ MODULE Sources ------------------------------
(* Finite sources (VectorSource, FileSource, SigMFSource) as emitters:      *)
(* data of length L emitted `repeat` times into a bounded stream that a     *)
(* consumer drains at its own pace. One Work step commits                   *)
(* min(free space, rest of the current repetition) samples; a repetition    *)
(* may therefore be emitted in several pieces. Marker tags: "start" and     *)
(* "repeat = k" on the first sample of repetition k, "first" once on the    *)
(* very first sample. EOF is reported exactly when repeat * L samples have  *)
(* been committed (and not before); an infinite repeat never reports EOF.   *)
(* The repeat counter follows Repeat.tla. (C16)                             *)
EXTENDS Integers, Sequences, FiniteSets, TLC

CONSTANTS Cap, Lens, Repeats, MaxOut   \* Repeats: naturals and -1 = infinite
Inf == -1
VARIABLES L, rep, pos, k, buf, out, tags, eof
vars == <<L, rep, pos, k, buf, out, tags, eof>>
\* rep = repetitions still to emit (Inf = forever), pos = position in the
\* current repetition, k = completed repetitions, buf = undrained samples,
\* out = samples committed so far, tags = set of <<index, name, value>>

Init == /\ L \in Lens /\ rep \in Repeats /\ pos = 0 /\ k = 0 /\ buf = 0 /\ out = 0
        /\ tags = {} /\ eof = FALSE

Min(a, b) == IF a < b THEN a ELSE b
Finished == L = 0 \/ rep = 0

Work ==
  /\ ~eof /\ out < MaxOut
  /\ IF Finished
     THEN eof' = TRUE /\ UNCHANGED <<L, rep, pos, k, buf, out, tags>>
     ELSE IF buf = Cap THEN UNCHANGED vars          \* waits for the output stream
     ELSE LET n == Min(Cap - buf, L - pos)
              newtags == IF pos = 0
                         THEN {<<out, "start", 1>>, <<out, "repeat", k>>} \cup (IF k = 0 THEN {<<out, "first", 1>>} ELSE {})
                         ELSE {}
              wraps == pos + n = L
          IN /\ buf' = buf + n /\ out' = out + n /\ tags' = tags \cup newtags
             /\ pos' = IF wraps THEN 0 ELSE pos + n
             /\ k' = IF wraps THEN k + 1 ELSE k
             /\ rep' = IF wraps /\ rep # Inf THEN rep - 1 ELSE rep
             /\ eof' = (wraps /\ rep # Inf /\ rep - 1 = 0)    \* EOF may come with the last piece
             /\ UNCHANGED L
Drain(n) == /\ n \in 1 .. buf /\ buf' = buf - n /\ UNCHANGED <<L, rep, pos, k, out, tags, eof>>
Next == Work \/ \E n \in 1 .. Cap : Drain(n)
Spec == Init /\ [][Next]_vars

Total == IF rep = Inf THEN 0 ELSE out + (IF Finished THEN 0 ELSE (L - pos) + (rep - 1) * L)
(* EOF exactly when everything has been emitted. *)
EofRight == eof => Finished
NeverEofInfinite == (rep = Inf /\ L > 0) => ~eof     \* (empty data: nothing to repeat, EOF at once)
(* Everything is emitted exactly `repeat` times: the promise is kept at     *)
(* every moment (emitted so far + still to emit is constant).               *)

OneMarkerPerRepetition ==
  \A r \in 0 .. (k - 1) : Cardinality({t \in tags : t[2] = "repeat" /\ t[3] = r}) = 1
MarkersOnFirstSample == \A t \in tags : L > 0 /\ t[1] % L = 0 /\ (t[2] = "repeat" => t[1] = t[3] * L)
FirstOnce == Cardinality({t \in tags : t[2] = "first"}) <= 1
Inv == EofRight /\ NeverEofInfinite /\ OneMarkerPerRepetition /\ MarkersOnFirstSample /\ FirstOnce
=============================================================================
