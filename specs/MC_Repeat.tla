------------------------------ MODULE MC_Repeat ------------------------------
EXTENDS Repeat, Json
StartsDef == {0, 1, 2, 3, Inf}
St == [rem |-> rem, count |-> count, last |-> last]
StP == [rem |-> rem', count |-> count', last |-> last']
Edge(a) == PrintT(<<"EDGE", ToJson([from |-> St, act |-> a, to |-> StP])>>)
NextE == (Again /\ Edge("again")) \/ (DoneQ /\ Edge("done")) \/ (CountQ /\ Edge("count"))
SpecE == Init /\ [][NextE]_vars
=============================================================================
