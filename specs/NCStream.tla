------------------------------ MODULE NCStream ------------------------------
(* A packet (non-copy) stream: Arc<(Mutex<VecDeque<T>>, Condvar)> shared by *)
(* a pushing thread P and a popping thread C (src/stream.rs NCWriteStream / *)
(* NCReadStream), at scheduling-point grain like StreamMT.                  *)
(*   push : Lock -> push_back -> Unlocked -> notify_all                     *)
(*   pop  : Lock -> pop_front -> Unlocked -> notify_all                     *)
(*   wait : Lock -> (CvWait)* -> liveness read while still holding the      *)
(*          guard -> Unlocked                                               *)
(*   eof  : rc point: liveness read -> Lock -> is_empty -> Unlocked         *)
(*          (quirk nc_eof_rc_after: emptiness first, liveness after unlock) *)
(* Properties (C04, packet streams): NeverIsTrue, EofIsTrue, NoLoss,        *)
(* LateFalse.                                                               *)
EXTENDS Integers, Sequences, FiniteSets, TLC

CONSTANTS Total, MaxWaits, Needs, Quirks

VARIABLES q,                 \* queued packet ids
          pushed, popped,    \* counts
          wAlive, rAlive,
          ppc, pcalls, pret,
          cpc, carg, cgot, cclosed, cret, ccalls,
          notified, lateFalse, started, order

vars == <<q, pushed, popped, wAlive, rAlive, ppc, pcalls, pret,
          cpc, carg, cgot, cclosed, cret, ccalls, notified, lateFalse, started, order>>
NoRet == "-"

Init == /\ q = <<>> /\ pushed = 0 /\ popped = 0 /\ wAlive = TRUE /\ rAlive = TRUE
        /\ ppc = "start" /\ pcalls = 0 /\ pret = NoRet
        /\ cpc = "start" /\ carg = 0 /\ cgot = 0 /\ cclosed = FALSE /\ cret = NoRet /\ ccalls = 0
        /\ notified = FALSE /\ lateFalse = 0 /\ started = FALSE /\ order = TRUE

PU == <<ppc, pcalls, pret>>
CU == <<cpc, carg, cgot, cclosed, cret, ccalls>>
Notify == IF cpc = "cvwait:wait" THEN TRUE ELSE notified

(* ---- pusher *)
P_Start == ppc = "start" /\ ppc' = "cmd"
           /\ UNCHANGED <<q, pushed, popped, wAlive, rAlive, pcalls, pret, CU, notified, lateFalse, started, order>>
P_CmdPush == /\ ppc = "cmd" /\ pushed < Total /\ ppc' = "lock:push" /\ pret' = NoRet
             /\ UNCHANGED <<q, pushed, popped, wAlive, rAlive, pcalls, CU, notified, lateFalse, started, order>>
P_LockPush == /\ ppc = "lock:push" /\ q' = Append(q, pushed + 1) /\ pushed' = pushed + 1
              /\ ppc' = "unlocked:push"
              /\ UNCHANGED <<popped, wAlive, rAlive, pcalls, pret, CU, notified, lateFalse, started, order>>
P_UnlPush == /\ ppc = "unlocked:push" /\ notified' = Notify /\ ppc' = "cmd"
             /\ UNCHANGED <<q, pushed, popped, wAlive, rAlive, pcalls, pret, CU, lateFalse, started, order>>
(* NCWriteStream::wait / closed: a bare liveness read. *)
P_CmdClosed == /\ ppc = "cmd" /\ pcalls < MaxWaits /\ ppc' = "rc:closed" /\ pcalls' = pcalls + 1 /\ pret' = NoRet
               /\ UNCHANGED <<q, pushed, popped, wAlive, rAlive, CU, notified, lateFalse, started, order>>
P_RcClosed == /\ ppc = "rc:closed" /\ pret' = (IF rAlive THEN "open" ELSE "never") /\ ppc' = "cmd"
              /\ UNCHANGED <<q, pushed, popped, wAlive, rAlive, pcalls, CU, notified, lateFalse, started, order>>
P_CmdDrop == /\ ppc = "cmd" /\ (pushed = Total \/ pret = "never") /\ ppc' = "drop_write:drop" /\ pret' = NoRet
             /\ UNCHANGED <<q, pushed, popped, wAlive, rAlive, pcalls, CU, notified, lateFalse, started, order>>
P_Drop == /\ ppc = "drop_write:drop" /\ wAlive' = FALSE /\ ppc' = "done"
          /\ UNCHANGED <<q, pushed, popped, rAlive, pcalls, pret, CU, notified, lateFalse, started, order>>

(* ---- popper *)
Stopped == cret = "never" \/ cret = "eof"
C_Start == cpc = "start" /\ cpc' = "cmd"
           /\ UNCHANGED <<q, pushed, popped, wAlive, rAlive, PU, carg, cgot, cclosed, cret, ccalls, notified, lateFalse, started, order>>
C_CmdPop == /\ cpc = "cmd" /\ ~Stopped /\ cpc' = "lock:pop" /\ cret' = NoRet
            /\ UNCHANGED <<q, pushed, popped, wAlive, rAlive, PU, carg, cgot, cclosed, ccalls, notified, lateFalse, started, order>>
C_LockPop == /\ cpc = "lock:pop"
             /\ IF Len(q) > 0
                THEN /\ q' = Tail(q) /\ popped' = popped + 1 /\ cgot' = Head(q)
                     /\ order' = (order /\ Head(q) = popped + 1)
                ELSE /\ UNCHANGED <<q, popped, order>> /\ cgot' = 0
             /\ cpc' = "unlocked:pop"
             /\ UNCHANGED <<pushed, wAlive, rAlive, PU, carg, cclosed, cret, ccalls, notified, lateFalse, started>>
C_UnlPop == /\ cpc = "unlocked:pop" /\ notified' = Notify /\ cpc' = "cmd"
            /\ cret' = (IF cgot = 0 THEN "none" ELSE "some")
            /\ UNCHANGED <<q, pushed, popped, wAlive, rAlive, PU, carg, cgot, cclosed, ccalls, lateFalse, started, order>>
C_CmdWait(need) ==
  /\ cpc = "cmd" /\ ~Stopped /\ ccalls < MaxWaits
  /\ carg' = need /\ ccalls' = ccalls + 1 /\ cret' = NoRet /\ cpc' = "lock:wait"
  /\ started' = (~wAlive /\ Len(q) < need)
  /\ UNCHANGED <<q, pushed, popped, wAlive, rAlive, PU, cgot, cclosed, notified, lateFalse, order>>
(* Returning from the wait (predicate false, or timeout): still holding the *)
(* guard, compute len < need && strong_count == 1.                          *)
WaitVerdict == IF Len(q) < carg /\ ~wAlive THEN "never" ELSE "retry"
C_LockWait ==
  /\ cpc = "lock:wait"
  /\ IF Len(q) >= carg
     THEN /\ cret' = WaitVerdict /\ cpc' = "unlocked:wait"
          /\ lateFalse' = IF started /\ WaitVerdict # "never" THEN lateFalse + 1 ELSE lateFalse
     ELSE /\ cret' = cret /\ cpc' = "cvwait:wait" /\ lateFalse' = lateFalse
  /\ notified' = FALSE
  /\ UNCHANGED <<q, pushed, popped, wAlive, rAlive, PU, carg, cgot, cclosed, ccalls, started, order>>
C_CvWait(kind) ==
  /\ cpc = "cvwait:wait"
  /\ kind = "notified" => notified
  /\ IF kind = "timeout" \/ Len(q) >= carg
     THEN /\ cret' = WaitVerdict /\ cpc' = "unlocked:wait"
          /\ lateFalse' = IF started /\ WaitVerdict # "never" THEN lateFalse + 1 ELSE lateFalse
     ELSE /\ cret' = cret /\ cpc' = "cvwait:wait" /\ lateFalse' = lateFalse
  /\ notified' = FALSE
  /\ UNCHANGED <<q, pushed, popped, wAlive, rAlive, PU, carg, cgot, cclosed, ccalls, started, order>>
C_UnlWait == /\ cpc = "unlocked:wait" /\ cpc' = "cmd"
             /\ UNCHANGED <<q, pushed, popped, wAlive, rAlive, PU, carg, cgot, cclosed, cret, ccalls, notified, lateFalse, started, order>>
(* eof() *)
C_CmdEof ==
  /\ cpc = "cmd" /\ ~Stopped /\ ccalls < MaxWaits /\ ccalls' = ccalls + 1 /\ cret' = NoRet
  /\ cpc' = IF "nc_eof_rc_after" \in Quirks THEN "lock:eof" ELSE "rc:eof"
  /\ UNCHANGED <<q, pushed, popped, wAlive, rAlive, PU, carg, cgot, cclosed, notified, lateFalse, started, order>>
C_RcEof == /\ cpc = "rc:eof" /\ cclosed' = ~wAlive /\ cpc' = "lock:eof"
           /\ UNCHANGED <<q, pushed, popped, wAlive, rAlive, PU, carg, cgot, cret, ccalls, notified, lateFalse, started, order>>
C_LockEof == /\ cpc = "lock:eof" /\ cgot' = Len(q) /\ cpc' = "unlocked:eof"
             /\ UNCHANGED <<q, pushed, popped, wAlive, rAlive, PU, carg, cclosed, cret, ccalls, notified, lateFalse, started, order>>
C_UnlEof ==
  /\ cpc = "unlocked:eof" /\ cpc' = "cmd"
  /\ LET closed == IF "nc_eof_rc_after" \in Quirks THEN ~wAlive ELSE cclosed
     IN cret' = IF cgot = 0 /\ closed THEN "eof" ELSE "noteof"
  /\ UNCHANGED <<q, pushed, popped, wAlive, rAlive, PU, carg, cgot, cclosed, ccalls, notified, lateFalse, started, order>>
C_CmdDrop == /\ cpc = "cmd" /\ cpc' = "drop_read:drop" /\ cret' = cret
             /\ UNCHANGED <<q, pushed, popped, wAlive, rAlive, PU, carg, cgot, cclosed, ccalls, notified, lateFalse, started, order>>
C_Drop == /\ cpc = "drop_read:drop" /\ rAlive' = FALSE /\ cpc' = "done"
          /\ UNCHANGED <<q, pushed, popped, wAlive, PU, carg, cgot, cclosed, cret, ccalls, notified, lateFalse, started, order>>

Next ==
  \/ P_Start \/ P_CmdPush \/ P_LockPush \/ P_UnlPush \/ P_CmdClosed \/ P_RcClosed \/ P_CmdDrop \/ P_Drop
  \/ C_Start \/ C_CmdPop \/ C_LockPop \/ C_UnlPop
  \/ \E need \in Needs : C_CmdWait(need)
  \/ C_LockWait \/ C_CvWait("timeout") \/ C_CvWait("notified") \/ C_UnlWait
  \/ C_CmdEof \/ C_RcEof \/ C_LockEof \/ C_UnlEof \/ C_CmdDrop \/ C_Drop
Spec == Init /\ [][Next]_vars

NeverIsTrue == /\ (cret = "never") => (~wAlive /\ Len(q) < carg)
               /\ (pret = "never") => ~rAlive
EofIsTrue == (cret = "eof") => (~wAlive /\ Len(q) = 0)
NoLoss == popped + Len(q) = pushed /\ order
LateFalse == lateFalse = 0
Inv == NeverIsTrue /\ EofIsTrue /\ NoLoss /\ LateFalse
=============================================================================
