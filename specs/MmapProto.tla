------------------------------ MODULE MmapProto ------------------------------
(* The set-up / tear-down protocol of a stream buffer over a shared address  *)
(* space (src/circular_buffer.rs Circ::new, Map::with_addr, Map::drop), C18. *)
(* Mmap.tla keeps the books of one system call trace; this module is the     *)
(* design behind it: which calls a creation or a drop issues, in which       *)
(* order, on which ranges, for every outcome of the two mapping calls, while *)
(* OTHER threads map and unmap memory in the same address space. It answers  *)
(* the question the accounting cannot: is there an interleaving in which a   *)
(* buffer's own calls destroy somebody else's mapping?                       *)
(*                                                                           *)
(*   create(t, s):  open ; ftruncate(2s) ; mmap(NULL, 2s)           (Map1)   *)
(*                  ; mmap(b+s, s, MAP_FIXED)                       (Map2)   *)
(*                  ; ftruncate(s) ; close                  -> ready         *)
(*     Map1 fails:  close                                   -> err           *)
(*     Map2 fails:  munmap(b, 2s) ; close                   -> err           *)
(*   drop(t):       munmap(b, s) ; munmap(b+s, s)           -> gone          *)
(*                                                                           *)
(* The kernel places a non-fixed mapping anywhere it fits (every placement   *)
(* is explored); MAP_FIXED replaces whatever is there; munmap frees whatever *)
(* is there. `bad` records a call of thread t that hit a page mapped by      *)
(* someone else. Quirks are plausible wrong designs; each must be refuted.   *)
(*   unmap_upper_twice  on a failed Map2 the upper half is unmapped on its   *)
(*                      own and then again with the whole reservation        *)
(*   hole_before_fixed  the upper half is unmapped before it is mapped again *)
(*                      (instead of being replaced in place)                 *)
(*   reserve_half       only s bytes are reserved, the second half is mapped *)
(*                      behind them by MAP_FIXED                             *)
EXTENDS Integers, FiniteSets, TLC

CONSTANTS Pages,     \* size of the address space in pages
          Threads,   \* threads that create (and drop) one buffer each
          Sizes,     \* buffer sizes in pages
          Foreign,   \* how many pages other code may have mapped at a time
          Quirks

VARIABLES mem,      \* page -> 0 (free) | thread id of the buffer mapped there | -1 (someone else's)
          pc,       \* thread -> phase
          base,     \* thread -> first page of its reservation
          sz,       \* thread -> size in pages
          fdopen,   \* thread -> descriptor of the backing file still open
          res,      \* thread -> "-" | "ok" | "err"
          bad       \* a call touched a page that was not the caller's

pvars == <<mem, pc, base, sz, fdopen, res, bad>>
PageSet == 0 .. (Pages - 1)
Run(b, n) == b .. (b + n - 1)

PInit ==
  /\ mem = [p \in PageSet |-> 0]
  /\ pc = [t \in Threads |-> "idle"] /\ base = [t \in Threads |-> 0] /\ sz = [t \in Threads |-> 0]
  /\ fdopen = [t \in Threads |-> FALSE] /\ res = [t \in Threads |-> "-"] /\ bad = FALSE

(* munmap(b, n) by t / MAP_FIXED over (b, n) by t: hitting a foreign page is the defect. *)
Hits(t, b, n) == \E p \in Run(b, n) \cap PageSet : mem[p] # 0 /\ mem[p] # t
Unmap(t, b, n) ==
  /\ mem' = [p \in PageSet |-> IF p \in Run(b, n) THEN 0 ELSE mem[p]]
  /\ bad' = (bad \/ Hits(t, b, n))
MapFixed(t, b, n) ==
  /\ mem' = [p \in PageSet |-> IF p \in Run(b, n) THEN t ELSE mem[p]]
  /\ bad' = (bad \/ Hits(t, b, n))

Open(t, s) ==
  /\ pc[t] = "idle" /\ res[t] = "-"
  /\ pc' = [pc EXCEPT ![t] = "trunc"] /\ sz' = [sz EXCEPT ![t] = s] /\ fdopen' = [fdopen EXCEPT ![t] = TRUE]
  /\ UNCHANGED <<mem, base, res, bad>>
Trunc(t) ==
  /\ pc[t] = "trunc" /\ pc' = [pc EXCEPT ![t] = "map1"]
  /\ UNCHANGED <<mem, base, sz, fdopen, res, bad>>
(* mmap(NULL, ..): any placement where the whole length is free. *)
Reserve(t) == IF "reserve_half" \in Quirks THEN sz[t] ELSE 2 * sz[t]
Map1Ok(t, b) ==
  /\ pc[t] = "map1" /\ Run(b, Reserve(t)) \subseteq PageSet /\ \A p \in Run(b, Reserve(t)) : mem[p] = 0
  /\ mem' = [p \in PageSet |-> IF p \in Run(b, Reserve(t)) THEN t ELSE mem[p]]
  /\ base' = [base EXCEPT ![t] = b]
  /\ pc' = [pc EXCEPT ![t] = IF "hole_before_fixed" \in Quirks THEN "hole" ELSE "map2"]
  /\ UNCHANGED <<sz, fdopen, res, bad>>
Map1Fail(t) ==
  /\ pc[t] = "map1" /\ pc' = [pc EXCEPT ![t] = "close_err"]
  /\ UNCHANGED <<mem, base, sz, fdopen, res, bad>>
Hole(t) ==      \* quirk hole_before_fixed only
  /\ pc[t] = "hole" /\ Unmap(t, base[t] + sz[t], sz[t]) /\ pc' = [pc EXCEPT ![t] = "map2"]
  /\ UNCHANGED <<base, sz, fdopen, res>>
Map2Ok(t) ==
  /\ pc[t] = "map2" /\ base[t] + 2 * sz[t] <= Pages
  /\ MapFixed(t, base[t] + sz[t], sz[t]) /\ pc' = [pc EXCEPT ![t] = "shrink"]
  /\ UNCHANGED <<base, sz, fdopen, res>>
Map2Fail(t) ==
  /\ pc[t] = "map2"
  /\ pc' = [pc EXCEPT ![t] = IF "unmap_upper_twice" \in Quirks THEN "unmap_upper" ELSE "unmap_err"]
  /\ UNCHANGED <<mem, base, sz, fdopen, res, bad>>
UnmapUpper(t) ==    \* quirk unmap_upper_twice only
  /\ pc[t] = "unmap_upper" /\ Unmap(t, base[t] + sz[t], sz[t]) /\ pc' = [pc EXCEPT ![t] = "unmap_err"]
  /\ UNCHANGED <<base, sz, fdopen, res>>
UnmapErr(t) ==
  /\ pc[t] = "unmap_err" /\ Unmap(t, base[t], 2 * sz[t]) /\ pc' = [pc EXCEPT ![t] = "close_err"]
  /\ UNCHANGED <<base, sz, fdopen, res>>
CloseErr(t) ==
  /\ pc[t] = "close_err" /\ fdopen' = [fdopen EXCEPT ![t] = FALSE]
  /\ pc' = [pc EXCEPT ![t] = "idle"] /\ res' = [res EXCEPT ![t] = "err"]
  /\ UNCHANGED <<mem, base, sz, bad>>
Shrink(t) ==
  /\ pc[t] = "shrink" /\ pc' = [pc EXCEPT ![t] = "close"]
  /\ UNCHANGED <<mem, base, sz, fdopen, res, bad>>
Close(t) ==
  /\ pc[t] = "close" /\ fdopen' = [fdopen EXCEPT ![t] = FALSE]
  /\ pc' = [pc EXCEPT ![t] = "ready"] /\ res' = [res EXCEPT ![t] = "ok"]
  /\ UNCHANGED <<mem, base, sz, bad>>
Drop1(t) ==
  /\ pc[t] = "ready" /\ Unmap(t, base[t], sz[t]) /\ pc' = [pc EXCEPT ![t] = "drop2"]
  /\ UNCHANGED <<base, sz, fdopen, res>>
Drop2(t) ==
  /\ pc[t] = "drop2" /\ Unmap(t, base[t] + sz[t], sz[t]) /\ pc' = [pc EXCEPT ![t] = "gone"]
  /\ UNCHANGED <<base, sz, fdopen, res>>

(* Everybody else in the process: malloc, thread stacks, other libraries.    *)
ForeignMap(p) ==
  /\ mem[p] = 0 /\ Cardinality({q \in PageSet : mem[q] = -1}) < Foreign
  /\ mem' = [mem EXCEPT ![p] = -1] /\ UNCHANGED <<pc, base, sz, fdopen, res, bad>>
ForeignUnmap(p) ==
  /\ mem[p] = -1 /\ mem' = [mem EXCEPT ![p] = 0] /\ UNCHANGED <<pc, base, sz, fdopen, res, bad>>

TNext(t) ==
  \/ \E s \in Sizes : Open(t, s)
  \/ Trunc(t) \/ Map1Fail(t) \/ \E b \in PageSet : Map1Ok(t, b)
  \/ Hole(t) \/ Map2Ok(t) \/ Map2Fail(t) \/ UnmapUpper(t) \/ UnmapErr(t) \/ CloseErr(t)
  \/ Shrink(t) \/ Close(t) \/ Drop1(t) \/ Drop2(t)
PNext == (\E t \in Threads : TNext(t)) \/ (\E p \in PageSet : ForeignMap(p) \/ ForeignUnmap(p))
PSpec == PInit /\ [][PNext]_pvars

(* C18 *)
NeverHitsOthers == ~bad
Mine(t) == {p \in PageSet : mem[p] = t}
(* A usable buffer is exactly its two halves, next to each other; its descriptor is closed. *)
ReadyIsTwoHalves == \A t \in Threads : pc[t] \in {"ready"} => (Mine(t) = Run(base[t], 2 * sz[t]) /\ ~fdopen[t])
(* A creation that failed, and a buffer that was dropped, leave nothing behind. *)
NothingLeft == \A t \in Threads : (pc[t] = "gone" \/ (pc[t] = "idle" /\ res[t] = "err")) => (Mine(t) = {} /\ ~fdopen[t])
(* The reservation is never given up while the set-up is in progress. *)
NoHoleDuringSetup == \A t \in Threads : pc[t] \in {"map2", "shrink", "close"} => Mine(t) = Run(base[t], 2 * sz[t])
PInv == NeverHitsOthers /\ ReadyIsTwoHalves /\ NothingLeft /\ NoHoleDuringSetup
=============================================================================
