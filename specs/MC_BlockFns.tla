---------------------------- MODULE MC_BlockFns ----------------------------
(* The closed forms used for long recorded inputs agree with the recursive  *)
(* definitions, for every bit string up to MaxN and all listed parameters.  *)
EXTENDS BlockFns, TLC
CONSTANT MaxN
VARIABLE x
Init == x = <<>>
Next == Len(x) < MaxN /\ \E b \in {0, 1} : x' = Append(x, b)
Spec == Init /\ [][Next]_x
Ratios == {<<1, 1>>, <<1, 2>>, <<2, 1>>, <<3, 2>>, <<2, 3>>, <<5, 3>>, <<1, 4>>, <<4, 6>>, <<6, 4>>, <<7, 5>>}
Lfsrs == {[mask |-> 33, seed |-> 0, len |-> 16], [mask |-> 5, seed |-> 3, len |-> 4], [mask |-> 1, seed |-> 0, len |-> 1],
          [mask |-> 9, seed |-> 7, len |-> 5], [mask |-> 33, seed |-> 131071, len |-> 16], [mask |-> 3, seed |-> 0, len |-> 2]}
ClosedFormsAgree ==
  /\ \A r \in Ratios : Resample([interp |-> r[1], deci |-> r[2]], <<x>>) = ResampleDef([interp |-> r[1], deci |-> r[2]], <<x>>)
  /\ \A q \in Lfsrs : Descramble(q, <<x>>) = DescrambleDef(q, <<x>>)
=============================================================================
