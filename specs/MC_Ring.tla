------------------------------ MODULE MC_Ring ------------------------------
(* Model-checking wrapper for Ring: exhaustive check + export of every     *)
(* explored transition as one JSON line (transition-cover replay).         *)
EXTENDS Ring, Json

Arr(f) == [i \in 1 .. Cap |-> f[i - 1]]
St  == [rpos |-> rpos, wpos |-> wpos, used |-> used, produced |-> produced,
        consumed |-> consumed, tags |-> Arr(tags), mem |-> Arr(mem),
        wwin |-> wwin, rwin |-> rwin, wstale |-> wstale, rstale |-> rstale, poisoned |-> poisoned]
StP == [rpos |-> rpos', wpos |-> wpos', used |-> used', produced |-> produced',
        consumed |-> consumed', tags |-> Arr(tags'), mem |-> Arr(mem'),
        wwin |-> wwin', rwin |-> rwin', wstale |-> wstale', rstale |-> rstale', poisoned |-> poisoned']
Edge(a) == PrintT(<<"EDGE", ToJson([from |-> St, act |-> a, to |-> StP])>>)

NextE ==
  \/ AcqW /\ Edge([op |-> "acqw"])
  \/ \E n \in 1 .. Cap : \E k \in {n, n + 1} : \E tg \in TagSeqs(n) :
       Commit(k, n, tg) /\ Edge([op |-> "commit", k |-> k, n |-> n, tg |-> tg])
  \/ CommitZero /\ Edge([op |-> "commit0"])
  \/ DropW /\ Edge([op |-> "dropw"])
  \/ \E n \in 1 .. (Cap + 1) : CommitRefused(n) /\ Edge([op |-> "commit_refused", n |-> n])
  \/ AcqR /\ Edge([op |-> "acqr"])
  \/ \E m \in 0 .. Cap : Consume(m) /\ Edge([op |-> "consume", m |-> m])
  \/ DropR /\ Edge([op |-> "dropr"])
  \/ \E m \in 1 .. (Cap + 1) : ConsumeRefused(m) /\ Edge([op |-> "consume_refused", m |-> m])
  \/ AcqW2 /\ Edge([op |-> "acqw2"])
  \/ DropStale /\ Edge([op |-> "dropstale"])
  \/ \E n \in 1 .. Cap : StaleCommitRefused(n) /\ Edge([op |-> "stale_commit_refused", n |-> n])
  \/ AcqR2 /\ Edge([op |-> "acqr2"])
  \/ DropStaleR /\ Edge([op |-> "dropstale_r"])
  \/ \E m \in 0 .. Cap : ConsumeStale(m) /\ Edge([op |-> "consume_stale", m |-> m])
  \/ \E m \in 1 .. Cap : StaleConsumeRefused(m) /\ Edge([op |-> "stale_consume_refused", m |-> m])

SpecE == Init /\ [][NextE]_vars
=============================================================================
