------------------------------ MODULE FileSink ------------------------------
(* The file sinks (src/file_sink.rs), C17.                                  *)
(*  Open modes for every initial file state, as documented:                 *)
(*    Create    fails iff the file exists                                   *)
(*    Overwrite leaves exactly the new data                                 *)
(*    Append    keeps existing content and adds to it, creating the file    *)
(*              if absent                                                   *)
(*  Streaming: work() = write; flush; consume. `acked` is what the caller   *)
(*  has seen consumed; a crash may happen between any two steps. Invariant: *)
(*  the file is a prefix of the serialised stream and contains at least     *)
(*  everything acknowledged.                                                *)
EXTENDS Integers, Sequences, FiniteSets, TLC

(* ---- open modes *)
Exists(initial) == initial \in {"empty", "nonempty", "directory", "unwritable"}
Opens(mode, initial) ==
  IF initial = "directory" THEN FALSE
  ELSE IF initial = "unwritable" THEN FALSE
  ELSE IF mode = "create" THEN ~Exists(initial)
  ELSE TRUE
ContentAfter(mode, old, new) == IF mode = "append" THEN old \o new ELSE new

(* ---- streaming with crashes *)
CONSTANTS Total, MaxChunk
VARIABLES buffered, infile, acked, pc, chunk, crashed
vars == <<buffered, infile, acked, pc, chunk, crashed>>
\* buffered: samples in the stream not yet consumed; infile: samples on disk
Init == buffered = 0 /\ infile = 0 /\ acked = 0 /\ pc = "idle" /\ chunk = 0 /\ crashed = FALSE
Feed(k) == /\ ~crashed /\ pc = "idle" /\ infile + buffered + k <= Total /\ buffered' = buffered + k
           /\ UNCHANGED <<infile, acked, pc, chunk, crashed>>
WorkStart == /\ ~crashed /\ pc = "idle" /\ buffered > 0 /\ chunk' = buffered /\ pc' = "before_write"
             /\ UNCHANGED <<buffered, infile, acked, crashed>>
WriteFlush == /\ ~crashed /\ pc = "before_write" /\ infile' = infile + chunk /\ pc' = "after_flush"
              /\ UNCHANGED <<buffered, acked, chunk, crashed>>
Consume == /\ ~crashed /\ pc = "after_flush" /\ buffered' = buffered - chunk /\ pc' = "after_consume"
           /\ UNCHANGED <<infile, acked, chunk, crashed>>
Return == /\ ~crashed /\ pc = "after_consume" /\ acked' = acked + chunk /\ pc' = "idle" /\ chunk' = 0
          /\ UNCHANGED <<buffered, infile, crashed>>
Crash == ~crashed /\ crashed' = TRUE /\ UNCHANGED <<buffered, infile, acked, pc, chunk>>
Next == (\E k \in 1 .. MaxChunk : Feed(k)) \/ WorkStart \/ WriteFlush \/ Consume \/ Return \/ Crash
Spec == Init /\ [][Next]_vars
(* consumed (as seen through the stream) never exceeds what is on disk, at  *)
(* any crash point *)
Durable == infile >= acked /\ infile <= Total
ConsumedIsOnDisk == (Total - buffered - (Total - infile - buffered)) >= 0 /\ infile + buffered >= acked
=============================================================================
