-------------------------- MODULE ByteFormats_Trace --------------------------
(* Judges events recorded by `vh codec`, `vh reasm`, `vh roundtrip`.        *)
EXTENDS ByteFormats, Json, IOUtils, TLCExt
VARIABLE l
Rec == ndJsonDeserialize(IOEnv.TRACE)
TraceInit == l = 1
Chk(p, label) == IF p THEN TRUE ELSE PrintT("CHECK-FAILED " \o ToString(l) \o " " \o label)

Codec(e) ==
  /\ Chk(e.panic = "", "codec_panic")
  /\ Chk(e.panic # "" \/ e.bytes = SerializeSample(e.limbs), "codec_bytes")
  /\ Chk(e.panic # "" \/ e.back = e.limbs, "codec_roundtrip")

(* out: list of samples, each the list of its bytes. During delivery the    *)
(* output is the grouping of what was sent; at the end it is all of it.     *)
Reasm(e) ==
  LET want == Groups(e.bytes, e.size) IN
  /\ Chk(e.panic = "", "reasm_panic")
  /\ Chk(e.panic # "" \/ (\A i \in 1 .. Len(e.verdicts) : SubSeq(e.verdicts[i], 1, 3) # "err"), "reasm_err")
  /\ Chk(e.panic # "" \/ e.out = want, "reasm_samples")

RoundTripEv(e) ==
  /\ Chk(e.file_equal /\ e.file_len = e.n * e.size, "roundtrip_file")
  /\ Chk(e.back_equal /\ e.back_len = e.n, "roundtrip_back")
  /\ Chk(Len(e.samples) = 0 \/ e.file = ConcatAll([i \in 1 .. Len(e.samples) |-> SerializeSample(e.samples[i])]), "roundtrip_file_bytes")
  /\ Chk(Len(e.samples) = 0 \/ e.back = e.samples, "roundtrip_back_samples")

TraceNext ==
  /\ l <= Len(Rec)
  /\ LET e == Rec[l] IN
       \/ e.ev = "codec" /\ Codec(e)
       \/ e.ev = "reasm" /\ Reasm(e)
       \/ e.ev = "roundtrip" /\ RoundTripEv(e)
  /\ l' = l + 1
TraceSpec == TraceInit /\ [][TraceNext]_l
TraceAccepted ==
  LET d == TLCGet("stats").diameter IN
  IF d - 1 = Len(Rec) THEN TRUE
  ELSE PrintT("TRACE-REJECTED at event " \o ToString(d)) /\ FALSE
=============================================================================
