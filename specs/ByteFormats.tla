---------------------------- MODULE ByteFormats ----------------------------
(* Byte-level formats of rustradio (C14):                                   *)
(*  - sample codecs: little-endian serialisation of u8/u32/i32/f32/complex, *)
(*    as functions on bit patterns carried as 16-bit limbs (most            *)
(*    significant limb first; TLC integers are 32 bit);                     *)
(*  - the partial-sample reassembler of byte sources (file, pipe, socket):  *)
(*    however the byte stream is split into read() results, the samples are *)
(*    the consecutive groups of `size` bytes;                               *)
(*  - the AU container: 28-byte big-endian header and PCM16-BE samples.     *)
EXTENDS Integers, Sequences, FiniteSets, TLC

(* ------------------------------------------------------------ codecs *)
(* A 32-bit pattern is <<hi, lo>> (16-bit limbs); LE bytes: lo first.       *)
Le32(hi, lo) == <<lo % 256, lo \div 256, hi % 256, hi \div 256>>
(* limbs of a sample -> its serialisation *)
SerializeSample(limbs) ==
  IF Len(limbs) = 1 THEN <<limbs[1]>>                                  \* u8
  ELSE IF Len(limbs) = 2 THEN Le32(limbs[1], limbs[2])                  \* u32 i32 f32
  ELSE Le32(limbs[1], limbs[2]) \o Le32(limbs[3], limbs[4])             \* complex: re then im
(* bytes -> limbs (the inverse) *)
ParseSample(bytes) ==
  IF Len(bytes) = 1 THEN <<bytes[1]>>
  ELSE IF Len(bytes) = 4 THEN <<bytes[3] + 256 * bytes[4], bytes[1] + 256 * bytes[2]>>
  ELSE <<bytes[3] + 256 * bytes[4], bytes[1] + 256 * bytes[2], bytes[7] + 256 * bytes[8], bytes[5] + 256 * bytes[6]>>

(* ------------------------------------------------------- reassembler *)
(* All ways to cut a stream of n bytes into consecutive non-empty reads.    *)
RECURSIVE Compositions(_)
Compositions(n) ==
  IF n = 0 THEN {<<>>}
  ELSE UNION {{<<k>> \o c : c \in Compositions(n - k)} : k \in 1 .. n}
(* The samples of a byte stream: consecutive groups of `size` bytes; a      *)
(* trailing partial group is not a sample.                                  *)
Groups(bytes, size) == [i \in 1 .. (Len(bytes) \div size) |-> SubSeq(bytes, size * (i - 1) + 1, size * i)]

(* ---------------------------------------------------------------- AU *)
Be32(v) == <<(v \div 16777216) % 256, (v \div 65536) % 256, (v \div 256) % 256, v % 256>>
(* 0xffffffff does not fit a TLC integer: written out *)
AuHeader(rate) == <<46, 115, 110, 100>> \o Be32(28) \o <<255, 255, 255, 255>> \o Be32(3) \o Be32(rate) \o Be32(1)
                  \o <<0, 0, 0, 0>>
(* PCM16 quantisation used by the encoder: trunc toward zero of x * 32767,  *)
(* saturated; here x = k / den exactly.                                     *)
Trunc(a, b) == IF a >= 0 THEN a \div b ELSE -((-a) \div b)
Quant(k, den) ==
  LET q == Trunc(k * 32767, den) IN IF q > 32767 THEN 32767 ELSE IF q < -32768 THEN -32768 ELSE q
Be16(v) == LET u == IF v < 0 THEN v + 65536 ELSE v IN <<u \div 256, u % 256>>
Signed16(hi, lo) == LET u == hi * 256 + lo IN IF u >= 32768 THEN u - 65536 ELSE u
RECURSIVE ConcatAll(_)
ConcatAll(ss) == IF Len(ss) = 0 THEN <<>> ELSE Head(ss) \o ConcatAll(Tail(ss))
AuEncodeFn(rate, ks, den) == AuHeader(rate) \o ConcatAll([i \in 1 .. Len(ks) |-> Be16(Quant(ks[i], den))])
(* decoder: PCM16 values of the data section that starts at data_offset     *)
AuDecodeFn(bytes) ==
  LET off == bytes[5] * 16777216 + bytes[6] * 65536 + bytes[7] * 256 + bytes[8]
      data == SubSeq(bytes, off + 1, Len(bytes))
  IN [i \in 1 .. (Len(data) \div 2) |-> Signed16(data[2 * i - 1], data[2 * i])]
=============================================================================
