----------------------------- MODULE Dsp_Trace -----------------------------
(* Kernel-level traces of the DSP code (C11) against the definitions:       *)
(* every logged result of Fir::filter*, IirFilter::filter, the tap          *)
(* generators and the Hilbert block is recomputed here from the logged      *)
(* arguments. Integers are exact; non-integer floats are logged in binary   *)
(* fixed point and compared within the stated number of units.              *)
EXTENDS Integers, Sequences, FiniteSets, TLC, Json, IOUtils, TLCExt
F == INSTANCE BlockFns
VARIABLES l
Rec == ndJsonDeserialize(IOEnv.TRACE)
NoNum == -1000000007
Chk(p, label) == IF p THEN TRUE ELSE PrintT("CHECK-FAILED " \o ToString(l) \o " " \o label)
Abs(a) == IF a < 0 THEN -a ELSE a
RECURSIVE SumTo(_, _)
SumTo(s, k) == IF k = 0 THEN 0 ELSE s[k] + SumTo(s, k - 1)

(* Fir::filter* : out[k] = sum_j taps[j] * x[(k-1)*deci + ntaps - j + 1]    *)
FirEv(e) ==
  LET nt == Len(e.taps) IN
  /\ Chk(\A k \in 1 .. Len(e.out) : e.out[k] = F!ConvAt(e.taps, e.x, (k - 1) * e.deci + nt), "fir_value")
  /\ Chk(e.all => Len(e.out) = ((Len(e.x) - nt) \div e.deci) + 1, "fir_count")
FirCEv(e) ==
  LET nt == Len(e.taps) IN
  /\ Chk(\A k \in 1 .. Len(e.out) : e.out[k] = F!ConvAtC(e.taps, e.x, (k - 1) * e.deci + nt), "fir_value")
  /\ Chk(Len(e.out) = ((Len(e.x) - nt) \div e.deci) + 1, "fir_count")

(* IirFilter: y[n] = taps[1] x[n] + sum_{i>=1} taps[i+1] y[n-i]; history    *)
(* zero, or the fill value.                                                 *)
RECURSIVE IirFrom(_, _, _, _)
IirFrom(taps, x, k, hist) ==
  \* hist: previous outputs, newest first, at most Len(taps) - 1 of them
  IF k > Len(x) THEN <<>>
  ELSE LET y == taps[1] * x[k] + F!SumSeq([i \in 1 .. Len(hist) |-> taps[i + 1] * hist[i]])
           h2 == SubSeq(<<y>> \o hist, 1, F!MinI(Len(hist) + 1, Len(taps) - 1))
       IN <<y>> \o IirFrom(taps, x, k + 1, h2)
IirEv(e) ==
  LET h0 == IF e.filled THEN [i \in 1 .. Len(e.taps) - 1 |-> e.fill] ELSE <<>> IN
  Chk(e.out = IirFrom(e.taps, e.x, 1, h0), "iir_recurrence")

(* clamped variant: y[n] = clamp(taps[1] x[n] + sum taps[i+1] y[n-i], mi, mx), *)
(* and it is the clamped value that is fed back.                              *)
Clamp(v, mi, mx) == IF v < mi THEN mi ELSE IF v > mx THEN mx ELSE v
RECURSIVE IirCFrom(_, _, _, _, _, _)
IirCFrom(taps, x, k, hist, mi, mx) ==
  IF k > Len(x) THEN <<>>
  ELSE LET y == Clamp(taps[1] * x[k] + F!SumSeq([i \in 1 .. Len(hist) |-> taps[i + 1] * hist[i]]), mi, mx)
           h2 == SubSeq(<<y>> \o hist, 1, F!MinI(Len(hist) + 1, Len(taps) - 1))
       IN <<y>> \o IirCFrom(taps, x, k + 1, h2, mi, mx)
IirCEv(e) == Chk(e.out = IirCFrom(e.taps, e.x, 1, <<>>, e.mi, e.mx), "iir_clamped_recurrence")

(* low_pass taps: odd count, symmetric, unit DC gain (2^-24 fixed point)    *)
LowPassEv(e) ==
  LET t == e.taps24 n == Len(t) IN
  /\ Chk(n = e.n /\ n % 2 = 1, "lowpass_odd")
  /\ Chk(\A i \in 1 .. n : Abs(t[i] - t[n + 1 - i]) <= 2, "lowpass_symmetric")
  /\ Chk(Abs(SumTo(t, n) - 16777216) <= 2 * n + 16, "lowpass_dc_gain")
(* hilbert taps: antisymmetric, zero at the centre and at even offsets      *)
HilbertTapsEv(e) ==
  LET t == e.taps20 n == Len(t) mid == (n + 1) \div 2 IN
  /\ Chk(n = e.n, "hilbert_taps")
  /\ Chk(\A i \in 1 .. n : Abs(t[i] + t[n + 1 - i]) <= 2, "hilbert_taps_antisymmetric")
  /\ Chk(\A i \in 1 .. n : (i - mid) % 2 = 0 => t[i] = 0, "hilbert_taps_even_zero")
(* Hilbert block: one output per input; real path = input aligned with the  *)
(* centre tap of the window that ends one sample back; imaginary path = the *)
(* FIR of the generated taps over that window.                              *)
HilbertEv(e) ==
  LET nt == e.ntaps x == e.x tol == 4 * nt + 8 IN
  /\ Chk(Len(e.re) = Len(x) /\ Len(e.im20) = Len(x), "hilbert_count")
  /\ Chk(\A i \in 1 .. Len(e.re) : e.re[i] = F!X0(x, i - (nt + 1) \div 2), "hilbert_real_path")
  /\ Chk(\A i \in 1 .. Len(e.im20) : Abs(e.im20[i] - F!ConvAt(e.taps20, x, i - 1)) <= tol, "hilbert_imag_path")

Ev(e) ==
  CASE e.ev = "fir" -> FirEv(e)
    [] e.ev = "firc" -> FirCEv(e)
    [] e.ev = "iir" -> IirEv(e)
    [] e.ev = "iirc" -> IirCEv(e)
    [] e.ev = "lowpass" -> LowPassEv(e)
    [] e.ev = "hilbert_taps" -> HilbertTapsEv(e)
    [] e.ev = "hilbert" -> HilbertEv(e)
    [] e.ev = "build" -> TRUE
    [] e.ev = "panic" -> Chk(FALSE, "panic")
TraceInit == l = 1
TraceNext == l <= Len(Rec) /\ Ev(Rec[l]) /\ l' = l + 1
TraceSpec == TraceInit /\ [][TraceNext]_l
TraceAccepted ==
  LET d == TLCGet("stats").diameter IN
  IF d - 1 = Len(Rec) THEN TRUE ELSE PrintT("TRACE-REJECTED at event " \o ToString(d)) /\ FALSE
=============================================================================
