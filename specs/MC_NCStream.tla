---------------------------- MODULE MC_NCStream ----------------------------
(* Transition export for NCStream (schedule steps).                        *)
EXTENDS NCStream, Json
Edge(t, pt, g, cmd) == PrintT(<<"EDGE", ToJson([from |-> ToString(vars), act |-> [t |-> t, pt |-> pt, g |-> g, cmd |-> cmd], to |-> ToString(vars')])>>)
None == [op |-> "none"]
NextE ==
  \/ P_Start /\ Edge("P", "start", "go", None)
  \/ P_CmdPush /\ Edge("P", "cmd", "go", [op |-> "push"])
  \/ P_LockPush /\ Edge("P", "lock", "go", None)
  \/ P_UnlPush /\ Edge("P", "unlocked", "go", None)
  \/ P_CmdClosed /\ Edge("P", "cmd", "go", [op |-> "closed"])
  \/ P_RcClosed /\ Edge("P", "rc", "go", None)
  \/ P_CmdDrop /\ Edge("P", "cmd", "go", [op |-> "drop"])
  \/ P_Drop /\ Edge("P", "drop_write", "go", None)
  \/ C_Start /\ Edge("C", "start", "go", None)
  \/ C_CmdPop /\ Edge("C", "cmd", "go", [op |-> "pop"])
  \/ C_LockPop /\ Edge("C", "lock", "go", None)
  \/ C_UnlPop /\ Edge("C", "unlocked", "go", None)
  \/ \E need \in Needs : C_CmdWait(need) /\ Edge("C", "cmd", "go", [op |-> "wait", need |-> need])
  \/ C_LockWait /\ Edge("C", "lock", "go", None)
  \/ C_CvWait("timeout") /\ Edge("C", "cvwait", "timeout", None)
  \/ C_CvWait("notified") /\ Edge("C", "cvwait", "notified", None)
  \/ C_UnlWait /\ Edge("C", "unlocked", "go", None)
  \/ C_CmdEof /\ Edge("C", "cmd", "go", [op |-> "eof"])
  \/ C_RcEof /\ Edge("C", "rc", "go", None)
  \/ C_LockEof /\ Edge("C", "lock", "go", None)
  \/ C_UnlEof /\ Edge("C", "unlocked", "go", None)
  \/ C_CmdDrop /\ Edge("C", "cmd", "go", [op |-> "drop"])
  \/ C_Drop /\ Edge("C", "drop_read", "go", None)
SpecE == Init /\ [][NextE]_vars
=============================================================================
