------------------------ MODULE BlockContract_Trace ------------------------
(* Trace validation for the drip-feed bench (harness `vh bench`).           *)
(* A trace is a list of scenarios. The first scenario of a group is the     *)
(* reference run (mode "ref": whole input at once, large free space); the   *)
(* following ones deliver the same input under adversarial schedules and    *)
(* must produce a prefix of the reference output after every work() call    *)
(* and exactly the reference output (and tags) once settled (C08, C12).     *)
(* Every work() call must satisfy the contract predicates (C09), and, for   *)
(* scenarios marked sync, the derive-macro step law (C19).                  *)
EXTENDS BlockContractDefs, BlockFns, SequencesExt, Json, IOUtils, TLCExt

H == INSTANCE Hdlc
BF == INSTANCE ByteFormats

VARIABLES l,
          hdr,                  \* current scenario header
          out, otags,           \* per output: samples / tags produced so far
          outn,                 \* per output: numeric values produced so far
          refOut, refTags, haveRef,
          fed, closedIn, spin, envSince, lastW, probe, cprobe
Rec == ndJsonDeserialize(IOEnv.TRACE)
tvars == <<l, hdr, out, otags, outn, refOut, refTags, haveRef, fed, closedIn, spin, envSince, lastW, probe, cprobe>>

NoW == [none |-> TRUE]
TraceInit ==
  /\ l = 1 /\ hdr = [mode |-> "none", nin |-> 0, nout |-> 0, gid |-> -1]
  /\ out = <<>> /\ otags = <<>> /\ outn = <<>> /\ refOut = <<>> /\ refTags = <<>> /\ haveRef = FALSE
  /\ fed = <<>> /\ closedIn = <<>> /\ spin = 0 /\ envSince = TRUE /\ lastW = NoW /\ probe = FALSE
  /\ cprobe = FALSE

(* A failed check is reported (one line on stdout) and the trace goes on,  *)
(* so one TLC run judges every scenario of a trace file.                    *)
Chk(p, label) == IF p THEN TRUE ELSE PrintT("CHECK-FAILED " \o ToString(l) \o " " \o label)

Has(e, f) == f \in DOMAIN e
Flag(e, f) == IF Has(e, f) THEN e[f] = TRUE ELSE FALSE

Scenario(e) ==
  /\ e.ev = "scenario"
  /\ Chk(~Has(e, "error"), "constructor")
  /\ hdr' = IF Has(e, "error") THEN [mode |-> "none", nin |-> 0, nout |-> 0, gid |-> -1] ELSE e
  /\ out' = [j \in 1 .. hdr'.nout |-> <<>>] /\ otags' = [j \in 1 .. hdr'.nout |-> <<>>]
  /\ outn' = [j \in 1 .. hdr'.nout |-> <<>>]
  /\ fed' = [i \in 1 .. hdr'.nin |-> 0] /\ closedIn' = [i \in 1 .. hdr'.nin |-> FALSE]
  /\ spin' = 0 /\ envSince' = TRUE /\ lastW' = NoW /\ probe' = FALSE /\ cprobe' = FALSE
  \* a reference run belongs to its scenario group only
  /\ IF hdr'.mode = "ref" \/ hdr'.mode = "none" \/ ~Has(hdr, "gid") \/ ~Has(hdr', "gid") \/ hdr.gid # hdr'.gid
     THEN refOut' = <<>> /\ refTags' = <<>> /\ haveRef' = FALSE
     ELSE UNCHANGED <<refOut, refTags, haveRef>>

Env(e) ==
  /\ \/ /\ e.ev = "feed"
        /\ fed' = IF e.i >= 1 THEN [fed EXCEPT ![e.i] = @ + e.k] ELSE fed
        /\ envSince' = (envSince \/ e.k > 0) /\ UNCHANGED closedIn
     \/ /\ e.ev = "drain" /\ envSince' = (envSince \/ e.k > 0) /\ UNCHANGED <<fed, closedIn>>
     \/ /\ e.ev = "close" /\ closedIn' = [closedIn EXCEPT ![e.i] = TRUE]
        /\ envSince' = TRUE /\ UNCHANGED fed
     \/ /\ e.ev = "dropout" /\ envSince' = TRUE /\ UNCHANGED <<fed, closedIn>>
  /\ UNCHANGED <<hdr, out, otags, outn, refOut, refTags, haveRef, spin, lastW, probe, cprobe>>

Probe(e) ==
  /\ e.ev = "probe" /\ probe' = e.provided /\ cprobe' = e.counter
  /\ UNCHANGED <<hdr, out, otags, outn, refOut, refTags, haveRef, fed, closedIn, spin, envSince, lastW>>

(* C19: step law of derive(sync) blocks.                                    *)
MinSeq(s) == IF Len(s) = 0 THEN 0 ELSE CHOOSE m \in {s[i] : i \in 1 .. Len(s)} : \A i \in 1 .. Len(s) : m <= s[i]
SyncLaw(w) ==
  LET n == IF MinSeq(w.avail) < MinSeq(w.space) THEN MinSeq(w.avail) ELSE MinSeq(w.space) IN
  /\ \A i \in 1 .. Len(w.consumed) : w.consumed[i] = n
  /\ \A j \in 1 .. Len(w.produced) : w.produced[j] = n
  /\ n > 0 => w.verdict.kind = "again"
  /\ n = 0 =>
       /\ w.verdict.kind = "wait" /\ w.verdict.need = 1
       /\ IF \E i \in 1 .. Len(w.avail) : w.avail[i] = 0
          THEN /\ w.verdict.side = "in"
               /\ w.avail[w.verdict.idx] = 0
               /\ \A i \in 1 .. (w.verdict.idx - 1) : w.avail[i] > 0
          ELSE /\ w.verdict.side = "out"
               /\ w.space[w.verdict.idx] = 0
               /\ \A j \in 1 .. (w.verdict.idx - 1) : w.space[j] > 0

SatisfiedWait(w) ==
  /\ w.verdict.kind = "wait" /\ w.verdict.side \in {"in", "out"}
  /\ IF w.verdict.side = "in"
     THEN w.verdict.idx \in 1 .. Len(w.avail) /\ w.avail[w.verdict.idx] - w.consumed[w.verdict.idx] >= w.verdict.need
     ELSE w.verdict.idx \in 1 .. Len(w.space) /\ w.space[w.verdict.idx] - w.produced[w.verdict.idx] >= w.verdict.need

TWork(w) ==
  /\ w.ev = "work"
  /\ Chk(NoCrash(w), "panic")
  /\ Chk(w.verdict.kind = "err" => Flag(hdr, "allow_err"), "err")
  /\ Chk(WithinWindows(w, hdr.pkt_in, hdr.pkt_out), "window")
  /\ Chk(NoLeakedWindow(w), "leak")
  /\ Chk(w.verdict.kind = "wait" => w.verdict.side \in {"in", "out"}, "verdict_side")
  /\ out' = [j \in 1 .. hdr.nout |-> out[j] \o w.out[j]]
  /\ otags' = [j \in 1 .. hdr.nout |-> otags[j] \o w.tags[j]]
  /\ outn' = [j \in 1 .. hdr.nout |-> outn[j] \o w.outn[j]]
  /\ Chk((hdr.mode # "ref" /\ haveRef /\ ~Flag(hdr, "partial")) =>
            \A j \in 1 .. hdr.nout : IsPrefix(out'[j], refOut[j]), "prefix")
  /\ spin' = IF w.verdict.kind = "again" /\ ~Moved(w) /\ ~envSince THEN spin + 1 ELSE 0
  /\ Chk(spin' <= MaxSpin, "spin")
  /\ Chk((probe /\ lastW # NoW) => ProbeAnswered(lastW, w), "probe")
  \* counter-probe: everything but the awaited stream was provided; progress
  \* now means the block had named the wrong stream.
  /\ Chk((cprobe /\ lastW # NoW) => ~Moved(w), "misdirected")
  \* a wait that was already satisfied when it was reported (the stream named held at
  \* least what was asked for right after the call): with nothing provided in between,
  \* the following call must make progress (a change of mind does not count: the block
  \* named a stream that was not what kept it from working)
  /\ Chk((~envSince /\ lastW # NoW /\ SatisfiedWait(lastW)) => Moved(w), "satisfied_wait")
  \* a block whose eof() was true after its previous call may be retired by a runner (MTGraph
  \* does so after a wait): it must have nothing left to deliver
  /\ Chk((lastW # NoW /\ lastW.eof /\ "flush" \notin DOMAIN w) => \A j \in 1 .. Len(w.produced) : w.produced[j] = 0, "eof_premature")
  /\ Chk(Flag(hdr, "sync") => SyncLaw(w), "synclaw")
  \* C16: an infinite source never reports EOF
  /\ Chk(Flag(hdr, "infinite") => w.verdict.kind # "eof", "eof_infinite")
  \* C19: generated eof() <=> every input has ended and is drained
  /\ Chk((Flag(hdr, "sync") /\ hdr.nin > 0) =>
            (w.eof = \A i \in 1 .. hdr.nin : closedIn[i] /\ w.avail[i] - w.consumed[i] = 0), "eof")
  /\ lastW' = w /\ envSince' = FALSE /\ probe' = FALSE /\ cprobe' = FALSE
  /\ UNCHANGED <<hdr, refOut, refTags, haveRef, fed, closedIn>>

(* --- tags *)
Count(s, t) == Cardinality({i \in 1 .. Len(s) : s[i] = t})
RangeOf(s) == {s[i] : i \in 1 .. Len(s)}
(* equality as bags; without repeated elements (the usual case: tag ids are   *)
(* unique) this is set equality, which TLC does in n log n                    *)
SameBag(a, b) == /\ Len(a) = Len(b)
                 /\ IF Cardinality(RangeOf(a)) = Len(a) /\ Cardinality(RangeOf(b)) = Len(b)
                    THEN RangeOf(a) = RangeOf(b)
                    ELSE \A i \in 1 .. Len(a) : Count(a, a[i]) = Count(b, a[i])
PKeys == {"p0", "p1", "p2"}
(* Expected image of the first input's tags under the block's index map.    *)
MapIdx(tm, a) ==
  IF tm.kind = "identity" THEN a
  ELSE IF tm.kind = "delay" THEN a + tm.arg
  ELSE IF tm.kind = "skip" THEN a - tm.arg
  ELSE IF tm.kind = "deci" THEN a \div tm.arg
  ELSE a
TagMapOk ==
  IF ~Has(hdr, "tagmap") THEN TRUE
  ELSE IF hdr.tagmap.kind = "none" THEN TRUE
  ELSE LET tm == hdr.tagmap
           src == hdr.intags[IF Has(tm, "src") THEN tm.src ELSE 1]
       IN \A j \in 1 .. hdr.nout :
            LET n == Len(out[j])
                want == SelectSeq([i \in 1 .. Len(src) |-> <<MapIdx(tm, src[i][1]), src[i][2], src[i][3]>>],
                                  LAMBDA t : t[1] >= 0 /\ t[1] < n)
                got == SelectSeq(otags[j], LAMBDA t : t[2] \in PKeys)
            IN SameBag(want, got)

(* Value-based tag placement, for blocks whose output samples are copies of  *)
(* input samples (flag tagvalue; inputs logged): every carried tag sits on   *)
(* an output sample equal to the input sample it was attached to, and no     *)
(* input tag comes out more than once per output.                            *)
TagValueOk ==
  IF ~Flag(hdr, "tagvalue") THEN TRUE
  ELSE \A j \in 1 .. hdr.nout :
         LET got == SelectSeq(otags[j], LAMBDA t : t[2] \in PKeys) IN
         /\ \A i \in 1 .. Len(got) :
              \E q \in 1 .. Len(hdr.intags[1]) :
                 LET it == hdr.intags[1][q] IN
                 /\ it[2] = got[i][2] /\ it[3] = got[i][3]
                 /\ got[i][1] + 1 <= Len(outn[j])
                 /\ outn[j][got[i][1] + 1] = hdr.inputs[1][it[1] + 1]
         /\ \A i1, i2 \in 1 .. Len(got) : (i1 # i2) => <<got[i1][2], got[i1][3]>> # <<got[i2][2], got[i2][3]>>

(* --- C10: independent functional oracle (BlockFns) *)
TagPairs(j, key) == {<<otags[j][i][1], otags[j][i][3]>> : i \in {x \in 1 .. Len(otags[j]) : otags[j][x][2] = key}}
Flatten(pkts) == Concat([i \in 1 .. Len(pkts) |-> <<-1>> \o pkts[i]])
InTagSet == IF hdr.nin = 0 THEN {}
            ELSE {<<hdr.intags[1][i][1], hdr.intags[1][i][3]>> : i \in 1 .. Len(hdr.intags[1])}
Expected ==
  LET f == hdr.fn p == hdr.fn.p ins == hdr.inputs IN
  CASE f.kind = "lin" -> Lin(p, ins)
    [] f.kind = "xor" -> XorFn(p, ins)
    [] f.kind = "slicer" -> Slicer(p, ins)
    [] f.kind = "mag2" -> Mag2(p, ins)
    [] f.kind = "f2c" -> F2C(p, ins)
    [] f.kind = "nrzi" -> Nrzi(p, ins)
    [] f.kind = "descramble" -> Descramble(p, ins)
    [] f.kind = "corr" -> Corr(p, ins)
    [] f.kind = "corrtag" -> CorrTagOut(p, ins)
    [] f.kind = "delay" -> DelayFn(p, ins)
    [] f.kind = "skip" -> SkipFn(p, ins)
    [] f.kind = "tee" -> TeeFn(p, ins)
    [] f.kind = "resample" -> Resample(p, ins)
    [] f.kind = "rtlsdr" -> RtlSdr(p, ins)
    [] f.kind \in {"vecsource", "vecsource_notags"} -> VecSource([data |-> hdr.srcdata, repeat |-> p.repeat], ins)
    [] f.kind = "v2s" -> V2S(p, ins)
    [] f.kind = "burst" -> BurstOut(p, ins)
    [] f.kind = "totext" -> ToTextFn(p, ins)
    [] f.kind = "fftframes" -> FftFrames(p, ins)
    [] f.kind = "affinemod" -> AffineMod(p, ins)
    [] f.kind = "negpair" -> NegPair(p, ins)
    [] f.kind = "debugtext" -> << Flatten(DebugText(p, ins)) >>
    [] f.kind = "fir" -> FirFn(p, ins)
    [] f.kind = "firc" -> FirFnC(p, ins)
    [] f.kind = "fftfilt" -> FftFiltFn(p, ins)
    [] f.kind = "fftfiltc" -> FftFiltFnC(p, ins)
    [] f.kind = "fastfm" -> FastFmFn(p, ins)
    [] f.kind = "qdemod8" -> QuadDemod8(p, ins)
    [] f.kind = "spiir" -> SpIirFn(p, ins)
    [] f.kind = "s2pdu" -> << Flatten(StreamToPduFn(p, ins, InTagSet)) >>
    [] f.kind = "hdlc" -> << Flatten(H!Deframe(p, ins[1])) >>
    [] f.kind = "expect" -> p.expect
    [] f.kind = "auenc" -> << BF!AuEncodeFn(p.rate, ins[1], p.den) >>
    [] f.kind = "audec" -> << BF!AuDecodeFn(ins[1]) >>
    [] f.kind = "p12" -> << Flatten([k \in 1 .. (Len(ins[1]) \div 2) |-> <<ins[1][2 * k - 1], ins[1][2 * k]>>]), ins[1] >>
    [] OTHER -> <<>>
ExpectedTags ==
  LET f == hdr.fn p == hdr.fn.p ins == hdr.inputs IN
  CASE f.kind = "corrtag" -> [key |-> "sync", set |-> {<<t[1], "U:" \o ToString(t[2])>> : t \in CorrTags(p, ins)}]
    [] f.kind = "burst" -> [key |-> "burst", set |-> BurstTags(p, ins)]
    [] OTHER -> [key |-> "", set |-> {}]
ExpectedTriples ==
  LET f == hdr.fn p == hdr.fn.p ins == hdr.inputs IN
  CASE f.kind = "vecsource" -> VecSourceTags([data |-> hdr.srcdata, repeat |-> p.repeat])
    [] f.kind = "v2s" -> V2STags(p, ins)
    [] OTHER -> {}
FnOutOk ==
  IF hdr.fn.kind = "none" THEN TRUE
  ELSE LET ex == Expected IN
       /\ Len(ex) = hdr.nout
       /\ \A j \in 1 .. hdr.nout :
            /\ IF Flag(hdr, "partial") THEN Len(outn[j]) <= Len(ex[j]) ELSE Len(outn[j]) = Len(ex[j])
            /\ \A k \in 1 .. Len(outn[j]) : k <= Len(ex[j]) /\ (ex[j][k] = NoNum \/ outn[j][k] = ex[j][k])
FnTagsOk ==
  IF hdr.fn.kind \in {"corrtag", "burst"}
  THEN TagPairs(1, ExpectedTags.key) = ExpectedTags.set
       /\ Cardinality(ExpectedTags.set) = Cardinality({i \in 1 .. Len(otags[1]) : otags[1][i][2] = ExpectedTags.key})
  ELSE IF hdr.fn.kind \in {"vecsource", "v2s"}
  THEN LET got == {<<otags[1][i][1], otags[1][i][2], otags[1][i][3]>> : i \in 1 .. Len(otags[1])}
            want == IF Flag(hdr, "partial") THEN {t \in ExpectedTriples : t[1] < Len(outn[1])} ELSE ExpectedTriples
       IN got = want /\ Len(otags[1]) = Cardinality(want)
  ELSE TRUE

Final(e) ==
  /\ e.ev = "final"
  /\ Chk(e.settled = TRUE, "unsettled")
  /\ Chk(TagMapOk, "tagmap")
  /\ Chk(TagValueOk, "tag_value")
  /\ Chk(FnOutOk, "fn_out")
  \* C16: a finite source ends with EOF, once everything is out
  /\ Chk(Flag(hdr, "finite_source") => (lastW # NoW /\ lastW.verdict.kind = "eof"), "eof_missing")
  /\ Chk(FnTagsOk, "fn_tags")
  /\ Chk(Flag(hdr, "close") =>
            /\ lastW # NoW
            /\ \/ lastW.verdict.kind = "eof"
               \/ /\ lastW.verdict.kind = "wait" /\ lastW.verdict.side = "in"
                  /\ closedIn[lastW.verdict.idx]
               \* WaitForFunc names no stream: both runners then ask the block's eof()
               \/ lastW.verdict.kind = "waitfunc" /\ lastW.eof
               \* an error return ends the run on both runners (C07): nothing is left to retire
               \/ lastW.verdict.kind = "err" /\ Flag(hdr, "allow_err"), "close_verdict")
  /\ IF hdr.mode = "ref"
     THEN refOut' = out /\ refTags' = otags /\ haveRef' = TRUE
     ELSE /\ Chk((haveRef /\ ~Flag(hdr, "partial")) => out = refOut, "final_out")
          /\ Chk((haveRef /\ ~Flag(hdr, "partial")) => \A j \in 1 .. hdr.nout : SameBag(otags[j], refTags[j]), "tags_ref")
          /\ UNCHANGED <<refOut, refTags, haveRef>>
  /\ UNCHANGED <<hdr, out, otags, outn, fed, closedIn, spin, envSince, lastW, probe, cprobe>>

TraceNext ==
  /\ l <= Len(Rec)
  /\ LET e == Rec[l] IN Scenario(e) \/ Env(e) \/ Probe(e) \/ TWork(e) \/ Final(e)
  /\ l' = l + 1
TraceSpec == TraceInit /\ [][TraceNext]_tvars

TraceAccepted ==
  LET d == TLCGet("stats").diameter IN
  IF d - 1 = Len(Rec) THEN TRUE
  ELSE /\ PrintT("TRACE-REJECTED at event " \o ToString(d) \o " " \o
                 (IF d <= Len(Rec) THEN ToJson(Rec[d]) ELSE "end"))
       /\ FALSE
=============================================================================
