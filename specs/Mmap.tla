-------------------------------- MODULE Mmap --------------------------------
(* Resource accounting of stream buffers over the system calls they make    *)
(* (src/circular_buffer.rs Circ::new / Map::drop), C18.                     *)
(*   Buffer::new(size):  openat(tmp, O_TMPFILE) = fd ; ftruncate(fd, 2s) ;  *)
(*                       mmap(NULL, 2s, SHARED, fd, 0) = b ;                *)
(*                       mmap(b + s, s, SHARED|FIXED, fd, 0) ;              *)
(*                       ftruncate(fd, s) ; close(fd)                       *)
(*   drop:               munmap(b, s) ; munmap(b + s, s)                    *)
(* State: live mapping parts <<region, offset, length, fd, file offset>>    *)
(* and open descriptors. Properties: after a successful new the two halves  *)
(* map the same file offset 0 (aliasing) and the descriptor is closed;      *)
(* after a failed new nothing is left; a drop unmaps exactly its two        *)
(* halves; munmap only hits live buffer mappings; at quiescent points no    *)
(* mapping and no descriptor remains.                                       *)
EXTENDS Integers, Sequences, FiniteSets, TLC

VARIABLES parts,     \* set of [r, off, len, fd, foff]: live shared file mappings
          fds,       \* descriptors opened inside the current operation bracket, still open
          owner,     \* slot -> region of its buffer (for drops)
          cur        \* current bracket: [op, slot, before, um (something was unmapped in it), size] or "none"

vars == <<parts, fds, owner, cur>>
Init == parts = {} /\ fds = {} /\ owner = <<>> /\ cur = [op |-> "none", slot |-> 0, before |-> {}, um |-> FALSE, size |-> 0]

Overlaps(p, r, off, len) == p.r = r /\ p.off < off + len /\ off < p.off + p.len
(* mmap of len bytes at (r, off): replaces whatever it overlaps (MAP_FIXED   *)
(* semantics), trimming the overlapped parts.                               *)
Trim(p, off, len) ==
  (IF p.off < off THEN {[p EXCEPT !.len = off - p.off]} ELSE {}) \cup
  (IF p.off + p.len > off + len
   THEN {[p EXCEPT !.off = off + len, !.len = p.off + p.len - (off + len), !.foff = p.foff + (off + len - p.off)]}
   ELSE {})
MapAt(r, off, len, fd, foff) ==
  parts' = UNION {IF Overlaps(p, r, off, len) THEN Trim(p, off, len) ELSE {p} : p \in parts}
           \cup {[r |-> r, off |-> off, len |-> len, fd |-> fd, foff |-> foff]}
RECURSIVE SumOver(_, _, _, _)
SumOver(S, r, off, len) ==
  IF S = {} THEN 0
  ELSE LET p == CHOOSE x \in S : TRUE
           lo == IF p.off > off THEN p.off ELSE off
           hi == IF p.off + p.len < off + len THEN p.off + p.len ELSE off + len
       IN (IF p.r = r /\ hi > lo THEN hi - lo ELSE 0) + SumOver(S \ {p}, r, off, len)
Covered(r, off, len) == SumOver(parts, r, off, len) = len   \* the range is exactly covered by live parts
UnmapAt(r, off, len) ==
  parts' = UNION {IF Overlaps(p, r, off, len) THEN Trim(p, off, len) ELSE {p} : p \in parts}

(* Expected shape after a successful Buffer::new(size) in region r. *)
TwoHalves(r, size) ==
  {p \in parts : p.r = r} = {[r |-> r, off |-> 0, len |-> size, fd |-> f, foff |-> 0] : f \in {q.fd : q \in {x \in parts : x.r = r}}}
                            \cup {[r |-> r, off |-> size, len |-> size, fd |-> f, foff |-> 0] : f \in {q.fd : q \in {x \in parts : x.r = r}}}
  /\ Cardinality({p \in parts : p.r = r}) = 2
=============================================================================
