------------------------------- MODULE Repeat -------------------------------
(* rustradio::Repeat (src/lib.rs): "repeat between zero and infinite        *)
(* times". finite(n): the data is emitted n times (0 = not even once);      *)
(* again() registers a completed repetition and tells whether to go on;     *)
(* done() tells whether nothing (more) is to be emitted; count() is the     *)
(* number of completed repetitions. No call sequence may panic, and the     *)
(* counters never over- or underflow (C16).                                 *)
EXTENDS Integers, Sequences, TLC

CONSTANTS Starts,     \* initial values explored: naturals, and Inf for infinite
          MaxCalls    \* model bound on the number of again() calls

Inf == -1
VARIABLES rem, count, last   \* remaining repetitions (Nat or Inf), completed, last return

vars == <<rem, count, last>>
Init == rem \in Starts /\ count = 0 /\ last = "-"

(* again(): one more repetition has been completed.                         *)
Again ==
  /\ count < MaxCalls
  /\ count' = count + 1
  /\ IF rem = Inf THEN rem' = rem /\ last' = "true"
     ELSE /\ rem' = IF rem = 0 THEN 0 ELSE rem - 1      \* never below zero
          /\ last' = IF rem > 1 THEN "true" ELSE "false"
DoneQ == /\ last' = IF rem = Inf THEN "false" ELSE IF rem = 0 THEN "true" ELSE "false"
         /\ UNCHANGED <<rem, count>>
CountQ == last' = ToString(count) /\ UNCHANGED <<rem, count>>

Next == Again \/ DoneQ \/ CountQ
Spec == Init /\ [][Next]_vars

(* Emission rule of the sources: a source emits repetition k (0-based) iff  *)
(* it was not done() before it; with finite(n) exactly n repetitions.       *)
NeverNegative == rem = Inf \/ rem >= 0
CountsCalls == count \in 0 .. MaxCalls
=============================================================================
