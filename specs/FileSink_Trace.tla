--------------------------- MODULE FileSink_Trace ---------------------------
(* Judges `vh sink-modes` and `vh sink-crash` events against FileSink.      *)
EXTENDS FileSink, Json, IOUtils, TLCExt
VARIABLE l
Rec == ndJsonDeserialize(IOEnv.TRACE)
TraceInit == l = 1 /\ buffered = 0 /\ infile = 0 /\ acked = 0 /\ pc = "idle" /\ chunk = 0 /\ crashed = FALSE
Chk(p, label) == IF p THEN TRUE ELSE PrintT("CHECK-FAILED " \o ToString(l) \o " " \o label)
ModeEv(e) ==
  IF e.skipped THEN TRUE
  ELSE
     /\ Chk(e.opened = Opens(e.mode, e.initial), "mode_open")
     /\ Chk((e.opened /\ Opens(e.mode, e.initial)) => e.content = ContentAfter(e.mode, e.old, e.new), "mode_content")
     /\ Chk((~e.opened /\ e.initial \in {"empty", "nonempty"}) => e.content = e.old, "mode_untouched")
(* killed at any point: the file is a prefix of the serialised stream and   *)
(* holds at least every acknowledged (consumed) sample / packet.            *)
CrashEv(e) ==
  /\ Chk(e.prefix_ok, "crash_prefix")
  /\ Chk(e.file_len >= e.acked_bytes, "crash_durable")
  \* killed right after the consume of a work() call: everything fed so far has
  \* been consumed, so all of it must be in the file already
  /\ Chk((e.point = "sink_after_consume" /\ e.killed) => e.file_len >= e.fed_bytes, "consumed_not_on_disk")
  /\ Chk(e.finished => e.file_len = e.total, "crash_complete")
TraceNext ==
  /\ l <= Len(Rec)
  /\ LET e == Rec[l] IN (e.ev = "mode" /\ ModeEv(e)) \/ (e.ev = "crash" /\ CrashEv(e))
  /\ l' = l + 1
  /\ UNCHANGED vars
TraceSpec == TraceInit /\ [][TraceNext]_<<vars, l>>
TraceAccepted ==
  LET d == TLCGet("stats").diameter IN
  IF d - 1 = Len(Rec) THEN TRUE ELSE PrintT("TRACE-REJECTED at event " \o ToString(d)) /\ FALSE
=============================================================================
