------------------------------- MODULE Graph -------------------------------
(* The single-threaded runner Graph::run (src/graph.rs:111-183), verbatim:  *)
(*   loop { done = true;                                                    *)
(*          if cancelled break;                                             *)
(*          for each block b in add order, not yet eof:                     *)
(*              ret = b.work()?            -- Err returns immediately       *)
(*              Again   -> done = false                                     *)
(*              Pending -> done = false                                     *)
(*              WaitForStream(s) -> eof[b] = b.eof() || s.closed()          *)
(*              WaitForFunc      -> eof[b] = b.eof()                        *)
(*              EOF     -> eof[b] = true                                    *)
(*          if done break }                                                 *)
(* The runner never drops a block, so no stream ever closes during run():   *)
(* b.eof() and s.closed() are always false and eof[b] is set only by an EOF *)
(* verdict.                                                                 *)
(*                                                                          *)
(* Blocks form a chain 1 -> 2 -> ... -> N connected by bounded streams.     *)
(* Block kinds are the verdict styles found in the library:                 *)
(*   src_eof    VectorSource / FileSource: returns EOF from the call in     *)
(*              which it commits its last data                              *)
(*   src_pending  RtlSdrSource / FileSource-with-partial-read style: every     *)
(*              other call answers Pending without moving anything (data    *)
(*              not there yet), the calls in between commit and say Again   *)
(*              (EOF with the last piece)                                   *)
(*   src_wait   SigMFSource / ConstantSource style: commits, then answers   *)
(*              WaitForStream(dst)                                          *)
(*   sync       derive(sync) blocks, FirFilter...: Again iff data moved     *)
(*   mover_wait RationalResampler / ToText style: moves data, then answers  *)
(*              WaitForStream                                               *)
(*   dec2_wait  RationalResampler(1,2): 2 -> 1, same verdict style          *)
(*   sink       VectorSink / NullSink: consumes everything, WaitForStream   *)
(*                                                                          *)
(* Fix selects the termination rule:                                        *)
(*   "none"      the rule above (a pass without Again/Pending is final)     *)
(*   "activity"  a pass is final only if, in addition, no sample was        *)
(*               committed or consumed on any stream during the pass        *)
(*                                                                          *)
(* Properties: C06 (ReturnsQuiescent, ReturnsRef), C07 (CancelBounded,      *)
(* ErrReturned).                                                            *)
EXTENDS Integers, Sequences, FiniteSets, TLC

CONSTANTS Cap,        \* capacity of every stream
          MaxN,       \* source lengths explored: 0 .. MaxN
          Chains,     \* set of chains: sequences of kinds, first a source, last "sink"
          Fix,        \* "none" | "activity"
          MayCancel,  \* BOOLEAN: environment may cancel at any moment
          FailAt      \* set of <<block, k>>: that block's k-th work() returns Err; {} = none

VARIABLES kinds,      \* the chain being run
          order,      \* add order: permutation of 1..N
          total, left,\* source length / samples still to emit
          q,          \* stream i (between block i and i+1) -> backlog
          phase,      \* block -> resampler counter (0 or -1)
          got,        \* samples stored by the sink
          eof, idx, done, moved, returned, cancelled, err, fail,
          calls,      \* block -> number of work() calls so far
          after       \* block -> work() calls since cancellation

vars == <<kinds, order, total, left, q, phase, got, eof, idx, done, moved, returned,
          cancelled, err, fail, calls, after>>

N == Len(kinds)
Blocks == 1 .. N
Perms(n) == {s \in [1 .. n -> 1 .. n] : \A i, j \in 1 .. n : i # j => s[i] # s[j]}
Min(a, b) == IF a < b THEN a ELSE b

Init ==
  /\ kinds \in Chains
  /\ order \in Perms(Len(kinds))
  /\ total \in 0 .. MaxN /\ left = total
  /\ q = [i \in 1 .. (Len(kinds) - 1) |-> 0]
  /\ phase = [b \in 1 .. Len(kinds) |-> 0]
  /\ got = 0
  /\ eof = [b \in 1 .. Len(kinds) |-> FALSE]
  /\ idx = 0 /\ done = TRUE /\ moved = FALSE
  /\ returned = FALSE /\ cancelled = FALSE /\ err = FALSE
  /\ fail \in (IF FailAt = {} THEN {<<0, 0>>} ELSE {f \in FailAt : f[1] <= Len(kinds)})
  /\ calls = [b \in 1 .. Len(kinds) |-> 0]
  /\ after = [b \in 1 .. Len(kinds) |-> 0]

---------------------------------------------------------------------------
(* RationalResampler(1,2) on counts: c = counter, a = available input,      *)
(* s = output space. Returns <<taken, produced, counter', out_full>>.       *)
RECURSIVE RR(_, _, _, _, _)
RR(c, a, s, taken, opos) ==
  IF a = 0 THEN <<taken, opos, c, FALSE>>
  ELSE LET c1 == c + 1 IN
       IF c1 > 0
       THEN IF opos + 1 = s THEN <<taken + 1, opos + 1, c1 - 2, TRUE>>
            ELSE RR(c1 - 2, a - 1, s, taken + 1, opos + 1)
       ELSE RR(c1, a - 1, s, taken + 1, opos)

(* One work() call of block b: <<left', q', phase', got', verdict>>.        *)
(* verdict in {"again", "wait", "eof"}.                                     *)
Work(b) ==
  LET k == kinds[b]
      inq == IF b > 1 THEN q[b - 1] ELSE 0
      space == IF b < N THEN Cap - q[b] ELSE 0
  IN
  IF k = "src_eof" THEN
       IF left = 0 THEN <<left, q, phase, got, "eof">>
       ELSE IF space = 0 THEN <<left, q, phase, got, "wait">>
       ELSE LET n == Min(space, left) IN
            <<left - n, [q EXCEPT ![b] = @ + n], phase, got,
              IF left - n = 0 THEN "eof" ELSE "again">>
  ELSE IF k = "src_pending" THEN
       IF left = 0 THEN <<left, q, phase, got, "eof">>
       ELSE IF phase[b] = 0 THEN <<left, q, [phase EXCEPT ![b] = 1], got, "pending">>
       ELSE IF space = 0 THEN <<left, q, phase, got, "wait">>
       ELSE LET n == Min(space, left) IN
            <<left - n, [q EXCEPT ![b] = @ + n], [phase EXCEPT ![b] = 0], got,
              IF left - n = 0 THEN "eof" ELSE "again">>
  ELSE IF k = "src_wait" THEN
       IF left = 0 THEN <<left, q, phase, got, "eof">>
       ELSE LET n == Min(space, left) IN
            <<left - n, [q EXCEPT ![b] = @ + n], phase, got, "wait">>
  ELSE IF k = "sync" THEN
       IF inq = 0 \/ space = 0 THEN <<left, q, phase, got, "wait">>
       ELSE LET n == Min(inq, space) IN
            <<left, [q EXCEPT ![b - 1] = @ - n, ![b] = @ + n], phase, got, "again">>
  ELSE IF k = "mover_wait" THEN
       IF inq = 0 \/ space = 0 THEN <<left, q, phase, got, "wait">>
       ELSE LET n == Min(inq, space) IN
            <<left, [q EXCEPT ![b - 1] = @ - n, ![b] = @ + n], phase, got, "wait">>
  ELSE IF k = "dec2_wait" THEN
       IF inq = 0 \/ space = 0 THEN <<left, q, phase, got, "wait">>
       ELSE LET r == RR(phase[b], inq, space, 0, 0) IN
            <<left, [q EXCEPT ![b - 1] = @ - r[1], ![b] = @ + r[2]],
              [phase EXCEPT ![b] = r[3]], got, "wait">>
  ELSE \* sink
       <<left, [q EXCEPT ![b - 1] = 0], phase, got + inq, "wait">>

Moves(b) == LET r == Work(b) IN r[1] # left \/ r[2] # q \/ r[4] # got

---------------------------------------------------------------------------
Cancel ==
  /\ MayCancel /\ ~cancelled /\ ~returned
  /\ cancelled' = TRUE
  /\ UNCHANGED <<kinds, order, total, left, q, phase, got, eof, idx, done, moved, returned,
                 err, fail, calls, after>>

(* Top of the loop body: a new pass starts (idx = 1 after PassEnd).         *)
PassBegin ==
  /\ ~returned /\ idx = 0
  /\ IF cancelled THEN returned' = TRUE /\ UNCHANGED <<idx, done, moved>>
     ELSE idx' = 1 /\ done' = TRUE /\ moved' = FALSE /\ UNCHANGED returned
  /\ UNCHANGED <<kinds, order, total, left, q, phase, got, eof, cancelled, err, fail, calls, after>>

(* Blocks already flagged eof are skipped by the for loop.                  *)
RECURSIVE NextLive(_)
NextLive(i) == IF i > N THEN N + 1 ELSE IF eof[order[i]] THEN NextLive(i + 1) ELSE i
Cur == NextLive(idx)

Step ==
  /\ ~returned /\ idx >= 1 /\ Cur <= N
  /\ LET b == order[Cur] IN
     IF fail = <<b, calls[b] + 1>> THEN
        \* work() returned Err: `?` returns it from run().
        /\ err' = TRUE /\ returned' = TRUE
        /\ calls' = [calls EXCEPT ![b] = @ + 1]
        /\ after' = [after EXCEPT ![b] = IF cancelled THEN @ + 1 ELSE @]
        /\ UNCHANGED <<left, q, phase, got, eof, idx, done, moved>>
     ELSE
        LET r == Work(b) IN
        /\ left' = r[1] /\ q' = r[2] /\ phase' = r[3] /\ got' = r[4]
        /\ eof' = [eof EXCEPT ![b] = (r[5] = "eof")]
        /\ done' = IF r[5] \in {"again", "pending"} THEN FALSE ELSE done
        /\ moved' = (moved \/ Moves(b))
        /\ calls' = [calls EXCEPT ![b] = @ + 1]
        /\ after' = [after EXCEPT ![b] = IF cancelled THEN @ + 1 ELSE @]
        /\ idx' = Cur + 1
        /\ UNCHANGED <<returned, err>>
  /\ UNCHANGED <<kinds, order, total, cancelled, fail>>

PassEnd ==
  /\ ~returned /\ idx >= 1 /\ Cur = N + 1
  /\ LET final == done /\ (Fix = "activity" => ~moved) IN
     IF final THEN returned' = TRUE /\ UNCHANGED idx
     ELSE idx' = 0 /\ UNCHANGED returned
  /\ UNCHANGED <<kinds, order, total, left, q, phase, got, eof, done, moved, cancelled, err,
                 fail, calls, after>>

(* The first pass: idx starts at 1 with done = TRUE, as PassBegin leaves it *)
(* (the cancel check of the very first pass is modelled by starting at 0).  *)
Next == Cancel \/ PassBegin \/ Step \/ PassEnd
Spec == Init /\ [][Next]_vars /\ WF_vars(PassBegin \/ Step \/ PassEnd)

---------------------------------------------------------------------------
(* Reference result of the chain on `total` samples.                        *)
RECURSIVE RefFrom(_, _)
RefFrom(b, n) ==
  IF b > N THEN n
  ELSE IF kinds[b] = "dec2_wait" THEN RefFrom(b + 1, (n + 1) \div 2)
  ELSE RefFrom(b + 1, n)
Ref == RefFrom(1, total)

Quiescent == \A b \in Blocks : ~eof[b] => ~Moves(b)

(* C06 *)
ReturnsQuiescent == (returned /\ ~cancelled /\ ~err) => Quiescent
ReturnsRef == (returned /\ ~cancelled /\ ~err) => got = Ref
(* C07 *)
CancelBounded == \A b \in Blocks : after[b] <= 1
ErrReturned == (fail # <<0, 0>> /\ calls[fail[1]] >= fail[2]) => (returned /\ err)
NoErrWithoutFail == err => fail # <<0, 0>>
Terminates == <>returned

TypeOK == /\ \A i \in DOMAIN q : q[i] \in 0 .. Cap
          /\ left \in 0 .. total /\ idx \in 0 .. (N + 1)
=============================================================================
