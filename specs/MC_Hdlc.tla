------------------------------ MODULE MC_Hdlc ------------------------------
(* Exhaustive check of the HDLC deframer automaton against the independent  *)
(* encoder on small scenarios (C13), and export of every scenario's bit     *)
(* string with the automaton's output for replay on the real block.         *)
EXTENDS Hdlc, Json

CONSTANTS Alphabet, MaxLen, MaxNoise, Kinds,
          Stride, Pick      \* export: leaves whose index hash is Pick modulo Stride
VARIABLES sc, stage
Payloads == UNION {[1 .. n -> Alphabet] : n \in 0 .. MaxLen}
BitSeqs(n) == UNION {[1 .. k -> {0, 1}] : k \in 0 .. n}
Cfgs == {[min |-> mi, max |-> mx, check |-> TRUE, fix |-> fx] :
           mi \in {0, 2, 4}, mx \in {3, 5, 8}, fx \in {FALSE, TRUE}}

(* Bits of a scenario. A frame after noise gets two opening flags: noise    *)
(* may end in a pattern that merges with the first flag.                    *)
Wire(s) ==
  s.noise \o (IF Len(s.noise) > 0 THEN Flag ELSE <<>>) \o
  (IF s.shared THEN Flag \o Body(s.p1) \o Flag \o Body(s.p2) \o Flag
   ELSE Frame(s.p1) \o Frame(s.p2))
Corrupt(s) == IF s.flip = 0 THEN Wire(s) ELSE FlipBit(Wire(s), s.flip)

(* Scenarios are built in stages so that TLC's workers share the work: the *)
(* invariant is evaluated on the leaves (stage 4).                          *)
Blank == [kind |-> "-", p1 |-> <<>>, p2 |-> <<>>, noise |-> <<>>, shared |-> FALSE, flip |-> 0,
          cfg |-> [min |-> 0, max |-> 0, check |-> TRUE, fix |-> FALSE]]
Init == sc = Blank /\ stage = 0
Next ==
  \/ /\ stage = 0 /\ stage' = 1
     /\ \E k \in Kinds : \E c \in (IF k = "clean" THEN Cfgs
                                   ELSE IF k = "flip" THEN {[min |-> 2, max |-> 8, check |-> TRUE, fix |-> fx] : fx \in BOOLEAN}
                                   ELSE {[min |-> 1, max |-> 8, check |-> FALSE, fix |-> FALSE]}) :
          sc' = [sc EXCEPT !.kind = k, !.cfg = c]
  \/ /\ stage = 1 /\ stage' = 2 /\ \E a \in Payloads : sc' = [sc EXCEPT !.p1 = a]
  \/ /\ stage = 2 /\ stage' = 3
     /\ \E b \in (IF sc.kind = "clean" THEN Payloads ELSE IF sc.kind = "flip" THEN {<<126, 63>>} ELSE {<<255>>}) :
        \E sh \in BOOLEAN : sc' = [sc EXCEPT !.p2 = b, !.shared = sh]
  \/ /\ stage = 3 /\ stage' = 4
     /\ IF sc.kind = "clean" THEN \E nz \in BitSeqs(MaxNoise) : sc' = [sc EXCEPT !.noise = nz]
        ELSE IF sc.kind = "flip" THEN \E k \in 1 .. (8 + Len(Body(sc.p1)) + 8) : sc' = [sc EXCEPT !.flip = k]
        ELSE sc' = sc
Spec == Init /\ [][Next]_<<sc, stage>>

Inside(cfg, p) == Len(p) + 2 >= cfg.min /\ Len(p) + 2 <= cfg.max - 1
Outside(cfg, p) == Len(p) + 2 < cfg.min \/ Len(p) + 2 > cfg.max
Out(s) == Deframe(s.cfg, Corrupt(s))
IsSubSeqOf(a, b) == \* a is b with some elements removed (order kept), |b| <= 2
  a \in {<<>>} \cup {<<b[i]>> : i \in 1 .. Len(b)} \cup {b}

CleanOk(s) ==
  LET o == Out(s) want == <<s.p1, s.p2>> IN
  /\ IsSubSeqOf(o, want)                                        \* nothing else, in order, once
  /\ Inside(s.cfg, s.p1) => (Len(o) >= 1 /\ o[1] = s.p1)         \* every valid frame recovered
  \* (a frame of exactly the maximum size is a boundary case the property
  \* leaves open; the code drops it while reading its closing flag, which a
  \* following frame sharing that flag does not survive)
  /\ (Inside(s.cfg, s.p2) /\ (Inside(s.cfg, s.p1) \/ Outside(s.cfg, s.p1))) => (Len(o) >= 1 /\ o[Len(o)] = s.p2)
  /\ Outside(s.cfg, s.p1) /\ Inside(s.cfg, s.p2) => o = <<s.p2>>  \* dropped without disturbing later frames
  /\ Outside(s.cfg, s.p1) /\ Outside(s.cfg, s.p2) => o = <<>>
FlipOk(s) ==
  LET o == Out(s) IN
  /\ IsSubSeqOf(o, <<s.p1, s.p2>>)          \* rejected, or repaired to the original; nothing invalid
  \* the following frame still arrives, unless it shares its only opening flag
  \* with the corrupted frame and the corrupted bit is in that flag or in the
  \* seven bits before it: a corrupted frame is bit noise to its successor, and
  \* noise that ends in a run of ones merges with a single flag (two
  \* overlapping flags, or an abort), which is why a frame is only promised
  \* after noise when at least two flags precede it (found by the thorough
  \* constants: p1 = <<63,126,126>>, its final stuffed zero flipped)
  /\ (~s.shared \/ s.flip <= 8 + Len(Body(s.p1)) - 7) => (Len(o) >= 1 /\ o[Len(o)] = s.p2)
NoCheckOk(s) == Out(s) = <<WithCrc(s.p1), WithCrc(s.p2)>>

ScenarioOk == stage < 4 \/
              CASE sc.kind = "clean" -> CleanOk(sc)
                [] sc.kind = "flip" -> FlipOk(sc)
                [] sc.kind = "nocheck" -> NoCheckOk(sc)

Hash(s) == Len(Wire(s)) * 7 + s.flip * 3 + Len(s.noise) * 11 + s.cfg.min * 5 + s.cfg.max + Len(s.p1) * 13 + Len(s.p2) * 17
             + (IF s.shared THEN 1 ELSE 0) + (IF s.cfg.fix THEN 2 ELSE 0) + (IF Len(s.noise) > 0 THEN s.noise[1] * 19 ELSE 0)
             + (IF Len(s.p1) > 0 THEN s.p1[1] ELSE 0) + (IF Len(s.p2) > 0 THEN s.p2[1] * 3 ELSE 0)
Export == (stage < 4 \/ Hash(sc) % Stride # Pick) \/
          PrintT(<<"SCEN", ToJson([kind |-> sc.kind, cfg |-> sc.cfg, bits |-> Corrupt(sc), expect |-> Out(sc)])>>)
=============================================================================
