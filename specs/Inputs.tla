------------------------------- MODULE Inputs -------------------------------
(* Input spaces for C15 ("input content can never crash a block, decoder or *)
(* parser"), enumerated exhaustively by TLC and exported for the bench:     *)
(*   bursts   all packets of length 0..MaxBurst over {-1, 0, 1, NaN, +inf}   *)
(*   headers  AU headers over a grid of data offsets, encodings, rates,     *)
(*            channel counts, with and without audio behind them            *)
(*   bits     all bit strings of length 0..MaxBits                          *)
(* The judging spec (BlockContract_Trace) has no way to accept a `panic`    *)
(* verdict or a run that does not settle within its budget.                 *)
EXTENDS Integers, Sequences, FiniteSets, TLC, Json

CONSTANTS MaxBurst, MaxBits
VARIABLE x
Vals == {"m1", "0", "1", "nan", "inf"}
Bursts == UNION {[1 .. n -> Vals] : n \in 0 .. MaxBurst}
BitStrings == UNION {[1 .. n -> {0, 1}] : n \in 0 .. MaxBits}
Offsets == {0, 4, 8, 12, 23, 24, 28, 40, 2147483647}
Headers == [off : Offsets, enc : {0, 3, 27}, rate : {0, 8000}, chan : {0, 1, 2}, audio : {0, 3, 40}]
Init == x \in [kind : {"burst"}, v : Bursts] \cup [kind : {"bits"}, v : BitStrings] \cup [kind : {"header"}, v : Headers]
Next == UNCHANGED x
Spec == Init /\ [][Next]_x
Export == PrintT(<<"CASE", ToJson(x)>>)
=============================================================================
