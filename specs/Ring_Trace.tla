---------------------------- MODULE Ring_Trace ----------------------------
(* Trace validation for Ring: checks an ndjson trace recorded from the     *)
(* real stream (harness `vh ring-trace`) against Ring's actions.           *)
(* One trace line = one action. Logged fields constrain the action's       *)
(* arguments and the successor state.                                      *)
EXTENDS Ring, Json, IOUtils, TLCExt

CONSTANT Modulus   \* sample values are logged modulo this (0 = not reduced)

VARIABLE l
Rec == ndJsonDeserialize(IOEnv.TRACE)

tvars == <<vars, l>>

TraceInit == Init /\ l = 1

PairSet(s) == {<<s[i][1], s[i][2]>> : i \in 1 .. Len(s)}
TagCounts == {<<c, Len(tags[c])>> : c \in {x \in Cells : Len(tags[x]) > 0}}

StOk(e) == /\ rpos' = e.st.rpos /\ wpos' = e.st.wpos /\ used' = e.st.used
           /\ PairSet(e.st.tc) = TagCounts'

Red(v) == IF Modulus = 0 THEN v ELSE v % Modulus
RunsOk(runs, contents) ==
  IF Len(contents) = 0 THEN Len(runs) = 0
  ELSE /\ Len(runs) = 1
       /\ runs[1][1] = Red(contents[1]) /\ runs[1][2] = Len(contents)

NoPanic(e) == IF "panic" \in DOMAIN e THEN e.panic = FALSE ELSE TRUE

Step(e) ==
  \/ /\ e.op = "reset" /\ e.cap = Cap
     /\ rpos' = 0 /\ wpos' = 0 /\ used' = 0
     /\ mem' = [c \in Cells |-> 0] /\ tags' = [c \in Cells |-> <<>>]
     /\ produced' = 0 /\ consumed' = 0 /\ wwin' = <<>> /\ rwin' = <<>> /\ wstale' = <<>> /\ rstale' = <<>>
     /\ poisoned' = FALSE
  \/ /\ e.op = "acqw" /\ NoPanic(e) /\ AcqW
     /\ wwin' = <<e.start, e.len>> /\ e.wlen = e.len /\ StOk(e)
  \/ /\ e.op = "commit" /\ NoPanic(e) /\ Commit(e.k, e.n, e.tg) /\ StOk(e)
  \/ /\ e.op = "commit0" /\ NoPanic(e) /\ CommitZero /\ StOk(e)
  \/ /\ e.op = "dropw" /\ DropW /\ StOk(e)
  \/ /\ e.op = "commit_refused" /\ e.accepted = FALSE /\ CommitRefused(e.n) /\ StOk(e)
  \* filling more than the window holds is refused; nothing changes (the window is gone)
  \/ /\ e.op = "fill_refused" /\ e.accepted = FALSE /\ DropW /\ StOk(e)
  \/ /\ e.op = "acqr" /\ NoPanic(e) /\ AcqR
     /\ rwin'[1] = e.start /\ rwin'[2] = e.len /\ e.rlen = e.len
     /\ RunsOk(e.runs, rwin'[3])
     /\ Len(e.tags) = Len(rwin'[4])
     /\ \A i \in 1 .. Len(e.tags) : e.tags[i][1] = rwin'[4][i][1] /\ e.tags[i][2] = rwin'[4][i][2]
     /\ StOk(e)
  \/ /\ e.op = "consume" /\ NoPanic(e)
     /\ rwin # <<>> /\ RunsOk(e.runs, Contents(rwin[1], rwin[2]))
     /\ Consume(e.m) /\ StOk(e)
  \/ /\ e.op = "dropr" /\ DropR /\ StOk(e)
  \/ /\ e.op = "consume_refused" /\ e.accepted = FALSE /\ ConsumeRefused(e.m) /\ StOk(e)

TraceNext == /\ l <= Len(Rec)
             /\ Step(Rec[l])
             /\ l' = l + 1

TraceSpec == TraceInit /\ [][TraceNext]_tvars

TraceAccepted ==
  LET d == TLCGet("stats").diameter IN
  IF d - 1 = Len(Rec) THEN TRUE
  ELSE /\ PrintT("TRACE-REJECTED at event " \o ToString(d) \o " " \o
                 (IF d <= Len(Rec) THEN ToJson(Rec[d]) ELSE "end"))
       /\ FALSE
=============================================================================
