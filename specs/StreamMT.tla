----------------------------- MODULE StreamMT -----------------------------
(* One rustradio stream shared by a producer thread P and a consumer       *)
(* thread C, at the grain of the controlled scheduler's scheduling points  *)
(* (src/verif.rs): one step = the code a thread runs between two parking   *)
(* points. See DESIGN.md Appendix A for the binding table.                 *)
(*                                                                          *)
(* A critical section (lock ... unlock) is a single step: the thread is    *)
(* granted at its Lock point, runs the section, and parks at the Unlocked  *)
(* point right after releasing the mutex. A condvar wait parks with the    *)
(* mutex released (CvWait); the grant is Timeout (always possible) or      *)
(* Notified (only if a notify_all happened since parking).                 *)
(*                                                                          *)
(* pc values are "<point kind>:<operation>".                               *)
(*                                                                          *)
(* Tags: every committed sample carries one tag whose value is the         *)
(* sample's id (the harness clients do that), so that the tag map of the   *)
(* ring is a function of the ring state and costs no extra states. A read  *)
(* window carries the tags snapshotted with it (third component of cwin).  *)
(*                                                                          *)
(* Properties: C03 (ReadsRight, WindowsDisjoint, Counts, TagsComplete,     *)
(*                  WindowTagsRight)                                        *)
(*             C04 (NeverIsTrue, EofIsTrue, NoLoss, LateFalse)             *)
EXTENDS Integers, Sequences, FiniteSets, TLC

CONSTANTS Cap,       \* ring capacity
          Total,     \* samples the producer commits before dropping its handle
          MaxChunk,  \* max samples written per window use
          MaxWaits,  \* max wait/eof/free calls per thread (model bound)
          Needs,     \* set of `need` arguments explored
          Quirks     \* modelled deviations; {} = the code as it should be

VARIABLES rpos, wpos, used, mem, produced, consumed,  \* ring (BufferState + memory)
          tags,                                       \* BufferState.tags: set of <<cell, id>>
          wAlive, rAlive,                             \* stream handles not yet dropped
          ppc, pwin, parg, pgot, pclosed, pret, pcalls,
          cpc, cwin, carg, cgot, cclosed, cret, ccalls,
          notified,                                   \* thread -> BOOLEAN
          readOK,                                     \* every MemRead saw the right ids
          lateFalse,                                  \* see LateFalse
          started                                     \* wait in progress began after closure

ring  == <<rpos, wpos, used, mem, produced, consumed, tags>>
pvars == <<ppc, pwin, parg, pgot, pclosed, pret, pcalls>>
cvars == <<cpc, cwin, carg, cgot, cclosed, cret, ccalls>>
vars  == <<ring, wAlive, rAlive, pvars, cvars, notified, readOK, lateFalse, started>>

Cells == 0 .. (Cap - 1)
Free  == Cap - used
Min(a, b) == IF a < b THEN a ELSE b
NoRet == "-"

Init ==
  /\ rpos = 0 /\ wpos = 0 /\ used = 0 /\ mem = [c \in Cells |-> 0]
  /\ produced = 0 /\ consumed = 0 /\ tags = {}
  /\ wAlive = TRUE /\ rAlive = TRUE
  /\ ppc = "start" /\ pwin = <<>> /\ parg = <<>> /\ pgot = 0 /\ pclosed = FALSE
  /\ pret = NoRet /\ pcalls = 0
  /\ cpc = "start" /\ cwin = <<>> /\ carg = <<>> /\ cgot = 0 /\ cclosed = FALSE
  /\ cret = NoRet /\ ccalls = 0
  /\ notified = [t \in {"P", "C"} |-> FALSE]
  /\ readOK = TRUE /\ lateFalse = 0 /\ started = FALSE

(* Cells start, start+1, ... (n of them, modulo Cap).                       *)
InRun(c, start, n) == (c + Cap - start) % Cap < n
(* Tags of a read window, positions relative to its start.                 *)
WinTags(start, n) == {<<(t[1] + Cap - start) % Cap, t[2]>> : t \in {x \in tags : InRun(x[1], start, n)}}
Prune(start, n) == {t \in tags : ~InRun(t[1], start, n)}

(* notify_all: every thread parked on the condvar becomes notifiable.      *)
Notify == [t \in {"P", "C"} |->
             IF (t = "P" /\ ppc = "cvwait:waitw") \/ (t = "C" /\ cpc = "cvwait:waitr")
             THEN TRUE ELSE notified[t]]

---------------------------------------------------------------------------
(* Producer                                                                *)

P_Start == /\ ppc = "start" /\ ppc' = "cmd"
           /\ UNCHANGED <<ring, wAlive, rAlive, pwin, parg, pgot, pclosed, pret, pcalls,
                          cvars, notified, readOK, lateFalse, started>>

(* At "cmd" the client decides its next call.                              *)
P_CmdAcqW ==
  /\ ppc = "cmd" /\ pwin = <<>> /\ produced < Total
  /\ ppc' = "lock:acqw" /\ pret' = NoRet
  /\ UNCHANGED <<ring, wAlive, rAlive, pwin, parg, pgot, pclosed, pcalls,
                 cvars, notified, readOK, lateFalse, started>>

(* put(k, n): write k samples into the window, then produce(n).            *)
P_CmdPut(k, n) ==
  /\ ppc = "cmd" /\ pwin # <<>>
  /\ k \in 1 .. Min(pwin[2], Total - produced) /\ n \in 0 .. k
  /\ parg' = <<k, n>> /\ ppc' = "mem_write:put" /\ pret' = NoRet
  /\ UNCHANGED <<ring, wAlive, rAlive, pwin, pgot, pclosed, pcalls,
                 cvars, notified, readOK, lateFalse, started>>

P_CmdDropWin ==
  /\ ppc = "cmd" /\ pwin # <<>>
  /\ pwin' = <<>> /\ pret' = NoRet
  /\ UNCHANGED <<ring, wAlive, rAlive, ppc, parg, pgot, pclosed, pcalls,
                 cvars, notified, readOK, lateFalse, started>>

P_CmdFree ==
  /\ ppc = "cmd" /\ pcalls < MaxWaits
  /\ ppc' = "lock:free" /\ pcalls' = pcalls + 1 /\ pret' = NoRet
  /\ UNCHANGED <<ring, wAlive, rAlive, pwin, parg, pgot, pclosed,
                 cvars, notified, readOK, lateFalse, started>>

(* wait_for_write(need). The code reads peer liveness first (point "rc"),  *)
(* then waits under the lock. Quirk rc_after_wait: liveness is read after  *)
(* the wait, unlocked (the order before the fix).                          *)
P_CmdWaitW(need) ==
  /\ ppc = "cmd" /\ pwin = <<>> /\ pcalls < MaxWaits
  /\ parg' = <<need>> /\ pcalls' = pcalls + 1 /\ pret' = NoRet
  /\ ppc' = IF "rc_after_wait" \in Quirks THEN "lock:waitw" ELSE "rc:waitw"
  /\ UNCHANGED <<ring, wAlive, rAlive, pwin, pgot, pclosed,
                 cvars, notified, readOK, lateFalse, started>>

P_CmdDrop ==
  /\ ppc = "cmd" /\ pwin = <<>>
  /\ produced = Total \/ pret = "never"
  /\ ppc' = "drop_write:drop" /\ pret' = NoRet
  /\ UNCHANGED <<ring, wAlive, rAlive, pwin, parg, pgot, pclosed, pcalls,
                 cvars, notified, readOK, lateFalse, started>>

(* --- write_buf: Lock -> snapshot -> Unlocked                             *)
P_LockAcqW ==
  /\ ppc = "lock:acqw"
  /\ pwin' = <<wpos, Free>> /\ ppc' = "unlocked:acqw"
  /\ UNCHANGED <<ring, wAlive, rAlive, parg, pgot, pclosed, pret, pcalls,
                 cvars, notified, readOK, lateFalse, started>>
P_UnlAcqW ==
  /\ ppc = "unlocked:acqw" /\ ppc' = "cmd"
  /\ UNCHANGED <<ring, wAlive, rAlive, pwin, parg, pgot, pclosed, pret, pcalls,
                 cvars, notified, readOK, lateFalse, started>>

(* --- slice fill (lock-free memory writes inside the window)              *)
P_MemWrite ==
  /\ ppc = "mem_write:put"
  /\ mem' = [c \in Cells |->
               LET rel == (c + Cap - pwin[1]) % Cap IN
               IF rel < parg[1] THEN produced + rel + 1 ELSE mem[c]]
  /\ ppc' = IF parg[2] = 0 THEN "cmd" ELSE "lock:commit"
  /\ pwin' = IF parg[2] = 0 THEN <<>> ELSE pwin     \* produce(0): no lock
  /\ UNCHANGED <<rpos, wpos, used, produced, consumed, tags, wAlive, rAlive,
                 parg, pgot, pclosed, pret, pcalls, cvars, notified, readOK, lateFalse, started>>

(* --- produce(n > 0): Lock -> update + notify_all -> Unlocked             *)
P_LockCommit ==
  /\ ppc = "lock:commit"
  /\ parg[2] <= Free      \* otherwise the assert fires; unreachable under discipline
  /\ wpos' = (wpos + parg[2]) % Cap /\ used' = used + parg[2]
  /\ produced' = produced + parg[2]
  /\ tags' = tags \cup {<<(wpos + j) % Cap, produced + j + 1>> : j \in 0 .. (parg[2] - 1)}
  /\ notified' = Notify
  /\ ppc' = "unlocked:commit"
  /\ pwin' = <<>>   \* produce(self) consumed the window: no write through it is possible any more
  /\ UNCHANGED <<rpos, mem, consumed, wAlive, rAlive, parg, pgot, pclosed, pret, pcalls,
                 cvars, readOK, lateFalse, started>>
P_UnlCommit ==
  /\ ppc = "unlocked:commit" /\ ppc' = "cmd"
  /\ UNCHANGED <<ring, wAlive, rAlive, pwin, parg, pgot, pclosed, pret, pcalls,
                 cvars, notified, readOK, lateFalse, started>>

(* --- free()                                                              *)
P_LockFree ==
  /\ ppc = "lock:free" /\ pgot' = Free /\ ppc' = "unlocked:free"
  /\ UNCHANGED <<ring, wAlive, rAlive, pwin, parg, pclosed, pret, pcalls,
                 cvars, notified, readOK, lateFalse, started>>
P_UnlFree ==
  /\ ppc = "unlocked:free" /\ ppc' = "cmd" /\ pret' = "free"
  /\ UNCHANGED <<ring, wAlive, rAlive, pwin, parg, pgot, pclosed, pcalls,
                 cvars, notified, readOK, lateFalse, started>>

(* --- wait_for_write(need)                                                *)
P_RcWaitW ==
  /\ ppc = "rc:waitw" /\ pclosed' = ~rAlive /\ ppc' = "lock:waitw"
  /\ UNCHANGED <<ring, wAlive, rAlive, pwin, parg, pgot, pret, pcalls,
                 cvars, notified, readOK, lateFalse, started>>
P_LockWaitW ==
  /\ ppc = "lock:waitw"
  /\ IF Free >= parg[1]
     THEN pgot' = Free /\ ppc' = "unlocked:waitw"
     ELSE pgot' = pgot /\ ppc' = "cvwait:waitw"
  /\ notified' = [notified EXCEPT !["P"] = FALSE]
  /\ UNCHANGED <<ring, wAlive, rAlive, pwin, parg, pclosed, pret, pcalls,
                 cvars, readOK, lateFalse, started>>
P_CvWaitW(kind) ==
  /\ ppc = "cvwait:waitw"
  /\ kind = "notified" => notified["P"]
  /\ IF kind = "timeout" \/ Free >= parg[1]
     THEN pgot' = Free /\ ppc' = "unlocked:waitw"
     ELSE pgot' = pgot /\ ppc' = "cvwait:waitw"
  /\ notified' = [notified EXCEPT !["P"] = FALSE]
  /\ UNCHANGED <<ring, wAlive, rAlive, pwin, parg, pclosed, pret, pcalls,
                 cvars, readOK, lateFalse, started>>
P_UnlWaitW ==
  /\ ppc = "unlocked:waitw"
  /\ LET closed == IF "rc_after_wait" \in Quirks THEN ~rAlive ELSE pclosed
         never == pgot < parg[1] /\ closed
     IN pret' = IF never THEN "never" ELSE "retry"
  /\ ppc' = "cmd"
  /\ UNCHANGED <<ring, wAlive, rAlive, pwin, parg, pgot, pclosed, pcalls,
                 cvars, notified, readOK, lateFalse, started>>

(* --- drop(WriteStream)                                                   *)
P_Drop ==
  /\ ppc = "drop_write:drop" /\ wAlive' = FALSE /\ ppc' = "done"
  /\ UNCHANGED <<ring, rAlive, pwin, parg, pgot, pclosed, pret, pcalls,
                 cvars, notified, readOK, lateFalse, started>>

---------------------------------------------------------------------------
(* Consumer                                                                *)

C_Start == /\ cpc = "start" /\ cpc' = "cmd"
           /\ UNCHANGED <<ring, wAlive, rAlive, pvars, cwin, carg, cgot, cclosed, cret, ccalls,
                          notified, readOK, lateFalse, started>>

C_CmdAcqR ==
  /\ cpc = "cmd" /\ cwin = <<>> /\ cret # "never" /\ cret # "eof"
  /\ cpc' = "lock:acqr" /\ cret' = NoRet
  /\ UNCHANGED <<ring, wAlive, rAlive, pvars, cwin, carg, cgot, cclosed, ccalls,
                 notified, readOK, lateFalse, started>>

(* get(m): read the window, then consume(m).                               *)
C_CmdGet(m) ==
  /\ cpc = "cmd" /\ cwin # <<>>
  /\ m \in 0 .. cwin[2]
  /\ carg' = <<m>> /\ cpc' = "mem_read:get" /\ cret' = NoRet
  /\ UNCHANGED <<ring, wAlive, rAlive, pvars, cwin, cgot, cclosed, ccalls,
                 notified, readOK, lateFalse, started>>

C_CmdDropWin ==
  /\ cpc = "cmd" /\ cwin # <<>>
  /\ cwin' = <<>> /\ cret' = NoRet
  /\ UNCHANGED <<ring, wAlive, rAlive, pvars, cpc, carg, cgot, cclosed, ccalls,
                 notified, readOK, lateFalse, started>>

C_CmdWaitR(need) ==
  /\ cpc = "cmd" /\ cwin = <<>> /\ ccalls < MaxWaits /\ cret # "never" /\ cret # "eof"
  /\ carg' = <<need>> /\ ccalls' = ccalls + 1 /\ cret' = NoRet
  /\ cpc' = IF "rc_after_wait" \in Quirks THEN "lock:waitr" ELSE "rc:waitr"
  /\ started' = (~wAlive /\ used < need)
  /\ UNCHANGED <<ring, wAlive, rAlive, pvars, cwin, cgot, cclosed,
                 notified, readOK, lateFalse>>

C_CmdEof ==
  /\ cpc = "cmd" /\ cwin = <<>> /\ ccalls < MaxWaits /\ cret # "never" /\ cret # "eof"
  /\ cpc' = "rc:eof" /\ ccalls' = ccalls + 1 /\ cret' = NoRet
  /\ UNCHANGED <<ring, wAlive, rAlive, pvars, cwin, carg, cgot, cclosed,
                 notified, readOK, lateFalse, started>>

C_CmdDrop ==
  /\ cpc = "cmd" /\ cwin = <<>>
  /\ cpc' = "drop_read:drop" /\ cret' = NoRet
  /\ UNCHANGED <<ring, wAlive, rAlive, pvars, cwin, carg, cgot, cclosed, ccalls,
                 notified, readOK, lateFalse, started>>

C_LockAcqR ==
  /\ cpc = "lock:acqr"
  /\ cwin' = <<rpos, used, WinTags(rpos, used)>> /\ cpc' = "unlocked:acqr"
  /\ UNCHANGED <<ring, wAlive, rAlive, pvars, carg, cgot, cclosed, cret, ccalls,
                 notified, readOK, lateFalse, started>>
C_UnlAcqR ==
  /\ cpc = "unlocked:acqr" /\ cpc' = "cmd"
  /\ UNCHANGED <<ring, wAlive, rAlive, pvars, cwin, carg, cgot, cclosed, cret, ccalls,
                 notified, readOK, lateFalse, started>>

(* Lock-free read of the window through the double mapping: must show      *)
(* exactly ids consumed+1 .. consumed+len.                                 *)
C_MemRead ==
  /\ cpc = "mem_read:get"
  /\ readOK' = (readOK /\ \A k \in 1 .. cwin[2] : mem[(cwin[1] + k - 1) % Cap] = consumed + k)
  /\ cpc' = IF carg[1] = 0 THEN "cmd" ELSE "lock:consume"
  /\ cwin' = IF carg[1] = 0 THEN <<>> ELSE cwin     \* consume(0): no lock
  /\ UNCHANGED <<ring, wAlive, rAlive, pvars, carg, cgot, cclosed, cret, ccalls,
                 notified, lateFalse, started>>

(* Quirk consume_two_sections: the space is handed back (and the writer   *)
(* woken) in one critical section, the tags of the consumed samples are    *)
(* removed in a second one, by position.                                   *)
C_LockConsume ==
  /\ cpc = "lock:consume"
  /\ carg[1] <= used
  /\ rpos' = (rpos + carg[1]) % Cap /\ used' = used - carg[1]
  /\ consumed' = consumed + carg[1]
  /\ notified' = Notify
  /\ IF "consume_two_sections" \in Quirks
     THEN tags' = tags /\ carg' = <<carg[1], rpos>> /\ cpc' = "unlocked:consume_a"
     ELSE tags' = Prune(rpos, carg[1]) /\ carg' = carg /\ cpc' = "unlocked:consume"
  /\ cwin' = <<>>   \* consume(self) consumed the window
  /\ UNCHANGED <<wpos, mem, produced, wAlive, rAlive, pvars, cgot, cclosed, cret, ccalls,
                 readOK, lateFalse, started>>
C_UnlConsumeA ==
  /\ cpc = "unlocked:consume_a" /\ cpc' = "lock:prune"
  /\ UNCHANGED <<ring, wAlive, rAlive, pvars, cwin, carg, cgot, cclosed, cret, ccalls,
                 notified, readOK, lateFalse, started>>
C_LockPrune ==
  /\ cpc = "lock:prune" /\ tags' = Prune(carg[2], carg[1]) /\ cpc' = "unlocked:consume"
  /\ UNCHANGED <<rpos, wpos, used, mem, produced, consumed, wAlive, rAlive, pvars, cwin, carg, cgot,
                 cclosed, cret, ccalls, notified, readOK, lateFalse, started>>
C_UnlConsume ==
  /\ cpc = "unlocked:consume" /\ cpc' = "cmd"
  /\ UNCHANGED <<ring, wAlive, rAlive, pvars, cwin, carg, cgot, cclosed, cret, ccalls,
                 notified, readOK, lateFalse, started>>

C_RcWaitR ==
  /\ cpc = "rc:waitr" /\ cclosed' = ~wAlive /\ cpc' = "lock:waitr"
  /\ UNCHANGED <<ring, wAlive, rAlive, pvars, cwin, carg, cgot, cret, ccalls,
                 notified, readOK, lateFalse, started>>
C_LockWaitR ==
  /\ cpc = "lock:waitr"
  /\ IF used >= carg[1]
     THEN cgot' = used /\ cpc' = "unlocked:waitr"
     ELSE cgot' = cgot /\ cpc' = "cvwait:waitr"
  /\ notified' = [notified EXCEPT !["C"] = FALSE]
  /\ UNCHANGED <<ring, wAlive, rAlive, pvars, cwin, carg, cclosed, cret, ccalls,
                 readOK, lateFalse, started>>
C_CvWaitR(kind) ==
  /\ cpc = "cvwait:waitr"
  /\ kind = "notified" => notified["C"]
  /\ IF kind = "timeout" \/ used >= carg[1]
     THEN cgot' = used /\ cpc' = "unlocked:waitr"
     ELSE cgot' = cgot /\ cpc' = "cvwait:waitr"
  /\ notified' = [notified EXCEPT !["C"] = FALSE]
  /\ UNCHANGED <<ring, wAlive, rAlive, pvars, cwin, carg, cclosed, cret, ccalls,
                 readOK, lateFalse, started>>
C_UnlWaitR ==
  /\ cpc = "unlocked:waitr"
  /\ LET closed == IF "rc_after_wait" \in Quirks THEN ~wAlive ELSE cclosed
         never == cgot < carg[1] /\ closed
     IN /\ cret' = IF never THEN "never" ELSE "retry"
        /\ lateFalse' = IF started /\ ~never THEN lateFalse + 1 ELSE lateFalse
  /\ cpc' = "cmd"
  /\ UNCHANGED <<ring, wAlive, rAlive, pvars, cwin, carg, cgot, cclosed, ccalls,
                 notified, readOK, started>>

(* eof(): refcount first; only if the writer is gone look at emptiness.    *)
C_RcEof ==
  /\ cpc = "rc:eof"
  /\ IF wAlive THEN cpc' = "cmd" /\ cret' = "noteof"
               ELSE cpc' = "lock:eof" /\ cret' = cret
  /\ UNCHANGED <<ring, wAlive, rAlive, pvars, cwin, carg, cgot, cclosed, ccalls,
                 notified, readOK, lateFalse, started>>
C_LockEof ==
  /\ cpc = "lock:eof" /\ cgot' = used /\ cpc' = "unlocked:eof"
  /\ UNCHANGED <<ring, wAlive, rAlive, pvars, cwin, carg, cclosed, cret, ccalls,
                 notified, readOK, lateFalse, started>>
C_UnlEof ==
  /\ cpc = "unlocked:eof" /\ cpc' = "cmd"
  /\ cret' = IF cgot = 0 THEN "eof" ELSE "noteof"
  /\ UNCHANGED <<ring, wAlive, rAlive, pvars, cwin, carg, cgot, cclosed, ccalls,
                 notified, readOK, lateFalse, started>>

C_Drop ==
  /\ cpc = "drop_read:drop" /\ rAlive' = FALSE /\ cpc' = "done"
  /\ UNCHANGED <<ring, wAlive, pvars, cwin, carg, cgot, cclosed, cret, ccalls,
                 notified, readOK, lateFalse, started>>

---------------------------------------------------------------------------
PNext ==
  \/ P_Start \/ P_CmdAcqW \/ P_CmdDropWin \/ P_CmdFree \/ P_CmdDrop
  \/ \E k \in 1 .. MaxChunk : \E n \in 0 .. MaxChunk : P_CmdPut(k, n)
  \/ \E need \in Needs : P_CmdWaitW(need)
  \/ P_LockAcqW \/ P_UnlAcqW \/ P_MemWrite \/ P_LockCommit \/ P_UnlCommit
  \/ P_LockFree \/ P_UnlFree
  \/ P_RcWaitW \/ P_LockWaitW \/ P_CvWaitW("timeout") \/ P_CvWaitW("notified") \/ P_UnlWaitW
  \/ P_Drop
CNext ==
  \/ C_Start \/ C_CmdAcqR \/ C_CmdEof \/ C_CmdDrop \/ C_CmdDropWin
  \/ \E m \in {0, 1, Cap} : C_CmdGet(IF cwin # <<>> /\ m = Cap THEN cwin[2] ELSE m)
  \/ \E need \in Needs : C_CmdWaitR(need)
  \/ C_LockAcqR \/ C_UnlAcqR \/ C_MemRead \/ C_LockConsume \/ C_UnlConsume
  \/ C_UnlConsumeA \/ C_LockPrune
  \/ C_RcWaitR \/ C_LockWaitR \/ C_CvWaitR("timeout") \/ C_CvWaitR("notified") \/ C_UnlWaitR
  \/ C_RcEof \/ C_LockEof \/ C_UnlEof
  \/ C_Drop
Next == PNext \/ CNext
Spec == Init /\ [][Next]_vars

---------------------------------------------------------------------------
(* C03 *)
Counts == used + Free = Cap /\ used \in 0 .. Cap /\ used = produced - consumed
          /\ wpos = (rpos + used) % Cap
ReadsRight == readOK
(* Cells of a live write window never overlap cells of a live read window. *)
WinCells(w) == {(w[1] + j) % Cap : j \in 0 .. (w[2] - 1)}
WindowsDisjoint == (pwin # <<>> /\ cwin # <<>>) => WinCells(pwin) \cap WinCells(cwin) = {}
(* Every committed, unconsumed sample still has its tag (commit and consume *)
(* are atomic with respect to each other also for the tag map) ...          *)
TagsComplete == \A k \in 1 .. used : <<(rpos + k - 1) % Cap, consumed + k>> \in tags
(* ... and a read window comes with exactly the tags of its samples         *)
(* (window and tags are one snapshot: nothing torn, duplicated or skipped). *)
WindowTagsRight == cwin # <<>> => cwin[3] = {<<k - 1, consumed + k>> : k \in 1 .. cwin[2]}
(* Committed data is what the producer wrote. *)
Committed == \A k \in 1 .. used : mem[(rpos + k - 1) % Cap] = consumed + k

(* C04 *)
(* Told "never" only if the peer is gone and, at that moment, less than    *)
(* `need` is available.                                                    *)
NeverIsTrue ==
  /\ (cret = "never") => (~wAlive /\ used < carg[1])
  /\ (pret = "never") => (~rAlive /\ Free < parg[1])
EofIsTrue == (cret = "eof") => (~wAlive /\ used = 0)
(* A consumer that stops because it was told so has lost nothing it asked  *)
(* for: less than `need` (for eof: nothing) remains, and all that was      *)
(* committed was either consumed or is still readable.                     *)
NoLoss == consumed + used = produced
(* Bounded shutdown: a wait that starts when the writer is already gone    *)
(* and the remainder is insufficient returns "never" (no false answers).   *)
LateFalse == lateFalse = 0

Inv == Counts /\ ReadsRight /\ WindowsDisjoint /\ Committed /\ TagsComplete /\ WindowTagsRight
       /\ NeverIsTrue /\ EofIsTrue /\ NoLoss /\ LateFalse
=============================================================================
