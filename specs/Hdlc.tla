-------------------------------- MODULE Hdlc --------------------------------
(* HDLC framing as used by AX.25 (src/hdlc_deframer.rs).                    *)
(*  (a) An independent encoder written from the protocol definition: flag   *)
(*      01111110, bytes LSB first, CRC-16/X.25 computed bit by bit, a 0     *)
(*      stuffed after five consecutive 1s.                                  *)
(*  (b) The deframer as a deterministic automaton over the bit stream:      *)
(*      Unsynced(reg) / Synced(ones, bits) / FinalCheck(bits), with the     *)
(*      size limits, checksum verification and single-bit repair.           *)
(* C13: every valid frame is recovered, nothing invalid is emitted.         *)
EXTENDS Integers, Sequences, FiniteSets, TLC

(* ---------------------------------------------------------------- encoder *)
ByteBits(b) == [i \in 1 .. 8 |-> (b \div (2 ^ (i - 1))) % 2]              \* LSB first
RECURSIVE BytesBits(_)
BytesBits(bs) == IF bs = <<>> THEN <<>> ELSE ByteBits(Head(bs)) \o BytesBits(Tail(bs))
(* CRC-16/X.25: reflected polynomial 0x8408, init 0xffff, final complement  *)
XorBit(a, b) == (a + b) % 2
RECURSIVE Xor16(_, _, _)
Xor16(a, b, n) == IF n = 0 THEN 0 ELSE XorBit(a % 2, b % 2) + 2 * Xor16(a \div 2, b \div 2, n - 1)
CrcStep(crc, bit) == IF XorBit(crc % 2, bit) = 1 THEN Xor16(crc \div 2, 33800, 16) ELSE crc \div 2
RECURSIVE CrcBits(_, _)
CrcBits(crc, bits) == IF bits = <<>> THEN crc ELSE CrcBits(TLCEval(CrcStep(crc, Head(bits))), Tail(bits))
Crc(bytes) == 65535 - CrcBits(65535, BytesBits(bytes))
WithCrc(bytes) == LET c == Crc(bytes) IN bytes \o <<c % 256, c \div 256>>
RECURSIVE Stuff(_, _)
Stuff(bits, ones) ==
  IF bits = <<>> THEN <<>>
  ELSE IF Head(bits) = 1
       THEN IF ones = 4 THEN <<1, 0>> \o Stuff(Tail(bits), 0) ELSE <<1>> \o Stuff(Tail(bits), ones + 1)
       ELSE <<0>> \o Stuff(Tail(bits), 0)
Flag == <<0, 1, 1, 1, 1, 1, 1, 0>>
Body(payload) == Stuff(BytesBits(WithCrc(payload)), 0)
Frame(payload) == Flag \o Body(payload) \o Flag
FlipBit(bits, k) == [bits EXCEPT ![k] = 1 - @]

(* --------------------------------------------------------------- deframer *)
Bits2Byte(s) == s[1] + 2 * s[2] + 4 * s[3] + 8 * s[4] + 16 * s[5] + 32 * s[6] + 64 * s[7] + 128 * s[8]
Bytes(bs) == [i \in 1 .. (Len(bs) \div 8) |-> Bits2Byte(SubSeq(bs, 8 * (i - 1) + 1, 8 * i))]

(* Single-bit repair: the first data bit (byte order, bit 0..7) whose flip   *)
(* makes the CRC match.                                                     *)
Repair(data, got) ==
  LET n == 8 * Len(data)
      flipAt(k) == [data EXCEPT ![(k - 1) \div 8 + 1] =
                      IF (@ \div (2 ^ ((k - 1) % 8))) % 2 = 1 THEN @ - 2 ^ ((k - 1) % 8) ELSE @ + 2 ^ ((k - 1) % 8)]
      good == {k \in 1 .. n : Crc(flipAt(k)) = got}
  IN IF good = {} THEN <<>> ELSE <<flipAt(CHOOSE k \in good : \A j \in good : k <= j)>>

(* What FinalCheck does with the collected bits (closing flag seen):        *)
(* the sequence of packets to emit (empty or one).                          *)
(* cfg = [min, max, check, fix]                                             *)
EmitOf(cfg, bs) ==
  LET trimmed == SubSeq(bs, 1, Len(bs) - 7) IN
  IF Len(trimmed) % 8 # 0 \/ Len(trimmed) \div 8 < cfg.min THEN <<>>
  ELSE LET by == Bytes(trimmed) IN
       IF ~cfg.check THEN <<by>>
       ELSE IF Len(by) < 2 THEN <<>>      \* shorter than the CRC itself: not a frame
       ELSE LET data == SubSeq(by, 1, Len(by) - 2)
                got == by[Len(by) - 1] + 256 * by[Len(by)]
            IN IF Crc(data) = got THEN <<data>>
               ELSE IF cfg.fix THEN Repair(data, got) ELSE <<>>

(* (TLCEval forces evaluation, so that long bit strings do not build deep    *)
(* chains of unevaluated steps.)                                            *)
(* One automaton step: state s = [st, reg, ones, bits], input bit b;        *)
(* returns <<s', emitted packets>>.                                         *)
Start == [st |-> "unsynced", reg |-> 255, ones |-> 0, bits |-> <<>>]
Unsync == [st |-> "unsynced", reg |-> 255, ones |-> 0, bits |-> <<>>]
StepFn(cfg, s, b) ==
  IF s.st = "unsynced" THEN
       LET n == (s.reg \div 2) + 128 * b IN
       IF n = 126 THEN <<[st |-> "synced", reg |-> 255, ones |-> 0, bits |-> <<>>], <<>>>>
       ELSE <<[s EXCEPT !.reg = n], <<>>>>
  ELSE IF s.st = "synced" THEN
       IF Len(s.bits) > cfg.max * 8 THEN <<Unsync, <<>>>>
       ELSE IF b = 1 THEN
            IF s.ones = 5 THEN <<[s EXCEPT !.st = "final", !.ones = 0, !.bits = Append(@, 1)], <<>>>>
            ELSE <<[s EXCEPT !.ones = @ + 1, !.bits = Append(@, 1)], <<>>>>
       ELSE IF s.ones = 5 THEN <<[s EXCEPT !.ones = 0], <<>>>>
       ELSE <<[s EXCEPT !.ones = 0, !.bits = Append(@, 0)], <<>>>>
  ELSE \* final
       IF b = 1 \/ Len(s.bits) < 7 THEN <<Unsync, <<>>>>
       ELSE <<[st |-> "synced", reg |-> 255, ones |-> 0, bits |-> <<>>], EmitOf(cfg, s.bits)>>

RECURSIVE DeframeFrom(_, _, _, _)
DeframeFrom(cfg, s, bits, k) ==
  IF k > Len(bits) THEN <<>>
  ELSE LET r == TLCEval(StepFn(cfg, s, bits[k])) IN r[2] \o DeframeFrom(cfg, r[1], bits, k + 1)
Deframe(cfg, bits) == DeframeFrom(cfg, Start, bits, 1)
=============================================================================
