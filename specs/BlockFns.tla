------------------------------ MODULE BlockFns ------------------------------
(* Executable definitions of the exactly-specified blocks, written from    *)
(* their documentation: each is a function from the parameters and the      *)
(* whole input sequences to the whole output sequences, over integers.      *)
(* BlockContract_Trace compares the output recorded from the real block     *)
(* with these (C10), and uses `Lin` for the harness-defined derive blocks   *)
(* (C19: wiring of inputs to outputs).                                      *)
(*                                                                          *)
(* Conventions: samples are integers (floats are fed integer values so that *)
(* f32 arithmetic is exact); a complex sample (re, im) is the integer       *)
(* (re + 2048) * 4096 + (im + 2048); NoNum marks a value that is not a      *)
(* small integer.                                                           *)
EXTENDS Integers, Sequences, FiniteSets, Bitwise, TLC

NoNum == -1000000007
MinI(a, b) == IF a < b THEN a ELSE b
MaxI(a, b) == IF a > b THEN a ELSE b
MinLen(ins) == IF Len(ins) = 0 THEN 0
               ELSE CHOOSE m \in {Len(ins[i]) : i \in 1 .. Len(ins)} : \A i \in 1 .. Len(ins) : m <= Len(ins[i])
Take(s, n) == SubSeq(s, 1, MinI(n, Len(s)))
Drop(s, n) == SubSeq(s, n + 1, Len(s))
CRe(c) == (c \div 4096) - 2048
CIm(c) == (c % 4096) - 2048
CPack(re, im) == (re + 2048) * 4096 + (im + 2048)
RECURSIVE SumSeq(_)
SumSeq(s) == IF Len(s) = 0 THEN 0 ELSE Head(s) + SumSeq(Tail(s))

(* ---- sample-wise blocks ------------------------------------------------ *)
(* out_j[k] = const[j] + sum_i coef[j][i] * in_i[k]   (AddConst, Add, Tee,   *)
(* MultiplyConst, derive-macro user blocks)                                 *)
Lin(p, ins) ==
  LET n == MinLen(ins) IN
  [j \in 1 .. Len(p.coef) |->
     [k \in 1 .. n |-> p.const[j] + SumSeq([i \in 1 .. Len(ins) |-> p.coef[j][i] * ins[i][k]])]]

XorFn(p, ins) ==      \* Xor (two inputs) / XorConst (p.val)
  LET n == MinLen(ins) IN
  << [k \in 1 .. n |-> IF Len(ins) = 2 THEN ins[1][k] ^^ ins[2][k] ELSE ins[1][k] ^^ p.val] >>

Slicer(p, ins) == << [k \in 1 .. Len(ins[1]) |-> IF ins[1][k] > 0 THEN 1 ELSE 0] >>
Mag2(p, ins) == << [k \in 1 .. Len(ins[1]) |->
                      CRe(ins[1][k]) * CRe(ins[1][k]) + CIm(ins[1][k]) * CIm(ins[1][k])] >>
F2C(p, ins) == << [k \in 1 .. MinLen(ins) |-> CPack(ins[1][k], ins[2][k])] >>

(* NRZI decode: 1 where the level did not change, first level compared to 0 *)
Nrzi(p, ins) ==
  LET x == ins[1] IN
  << [k \in 1 .. Len(x) |-> (1 ^^ x[k]) ^^ (IF k = 1 THEN 0 ELSE x[k - 1])] >>

(* Multiplicative (self-synchronising) descrambler with a shift register of *)
(* p.len + 1 bits, newest bit at position p.len, taps p.mask, start p.seed: *)
(*   out = in XOR parity(reg AND mask);  reg = (reg >> 1) | (in << len)     *)
RECURSIVE Parity(_)
Parity(x) == IF x = 0 THEN 0 ELSE (x % 2) ^^ Parity(x \div 2)
RECURSIVE DescrFrom(_, _, _, _)
DescrFrom(p, x, k, reg) ==
  IF k > Len(x) THEN <<>>
  ELSE LET o == Parity(reg & p.mask) ^^ x[k]
           r2 == (reg \div 2) + x[k] * (2 ^ p.len)
       IN <<o>> \o DescrFrom(p, x, k + 1, r2)
DescrambleDef(p, ins) == << DescrFrom(p, ins[1], 1, p.seed) >>
(* The same in closed form (checked equal by TLC in MC_BlockFns): before     *)
(* input k the register holds input j at bit len - (k-1-j) for the last      *)
(* len + 1 inputs, and what is left of the seed.                             *)
RegAt(p, x, k) ==
  LET lo == MaxI(1, k - 1 - p.len) IN
  (IF k - 1 <= p.len + 1 THEN p.seed \div (2 ^ (k - 1)) ELSE 0)
  + SumSeq([j \in 1 .. (k - lo) |-> x[lo + j - 1] * (2 ^ (p.len - (k - 1 - (lo + j - 1))))])
Descramble(p, ins) ==
  LET x == ins[1] IN << [k \in 1 .. Len(x) |-> Parity(RegAt(p, x, k) & p.mask) ^^ x[k]] >>

(* Access code correlator: 1 iff the last Len(code) inputs (zero history    *)
(* before the stream) differ from the code in at most p.allowed places.     *)
HistAt(x, k, n) == [j \in 1 .. n |-> IF k - n + j >= 1 THEN x[k - n + j] ELSE 0]
Dist(a, b) == Cardinality({j \in 1 .. Len(a) : a[j] # b[j]})
Corr(p, ins) ==
  LET x == ins[1] n == Len(p.code) IN
  << [k \in 1 .. Len(x) |-> IF Dist(HistAt(x, k, n), p.code) <= p.allowed THEN 1 ELSE 0] >>
(* Tagging variant: data passes through; tag (index, distance) on matches.  *)
CorrTagOut(p, ins) == << ins[1] >>
CorrTags(p, ins) ==
  LET x == ins[1] n == Len(p.code) IN
  {<<k - 1, Dist(HistAt(x, k, n), p.code)>> : k \in {i \in 1 .. Len(x) : Dist(HistAt(x, i, n), p.code) <= p.allowed}}

(* ---- rate / position changers ------------------------------------------ *)
DelayFn(p, ins) == << [k \in 1 .. (Len(ins[1]) + p.delay) |->
                         IF k <= p.delay THEN 0 ELSE ins[1][k - p.delay]] >>
SkipFn(p, ins) == << Drop(ins[1], p.skip) >>
TeeFn(p, ins) == << ins[1], ins[1] >>

(* Rational resampler i/d (after dividing by the gcd): input sample k       *)
(* (0-based) appears ceil((k+1)i/d) - ceil(k i/d) times.                    *)
RECURSIVE Gcd(_, _)
Gcd(a, b) == IF b = 0 THEN a ELSE Gcd(b, a % b)
CeilDiv(a, b) == (a + b - 1) \div b
RECURSIVE ResFrom(_, _, _, _)
ResFrom(x, k, i, d) ==
  IF k > Len(x) THEN <<>>
  ELSE LET reps == CeilDiv(k * i, d) - CeilDiv((k - 1) * i, d)
       IN [j \in 1 .. reps |-> x[k]] \o ResFrom(x, k + 1, i, d)
ResampleDef(p, ins) ==
  LET g == Gcd(p.interp, p.deci) IN
  << ResFrom(ins[1], 1, p.interp \div g, p.deci \div g) >>
(* The same in closed form (linear time; equality with ResampleDef is        *)
(* checked by TLC in MC_BlockFns): output j (0-based) is input floor(j d/i), *)
(* ceil(L i/d) outputs.                                                      *)
Resample(p, ins) ==
  LET x == ins[1] IN
  << [j \in 1 .. CeilDiv(Len(x) * p.interp, p.deci) |-> x[((j - 1) * p.deci) \div p.interp + 1]] >>

(* RTL-SDR bytes to I/Q: pairs (a, b) -> ((a-127)/125, (b-127)/125); the    *)
(* harness logs 125 * value rounded, packed as a complex integer.           *)
RtlSdr(p, ins) ==
  LET x == ins[1] IN
  << [k \in 1 .. (Len(x) \div 2) |-> CPack(x[2 * k - 1] - 127, x[2 * k] - 127)] >>

(* ---- sources ------------------------------------------------------------ *)
RECURSIVE RepeatSeq(_, _)
RepeatSeq(s, n) == IF n = 0 THEN <<>> ELSE s \o RepeatSeq(s, n - 1)
VecSource(p, ins) == << RepeatSeq(p.data, p.repeat) >>
(* marker tags: start + repeat=r on the first sample of each repetition,    *)
(* first once on sample 0: as (index, key, value string)                    *)
VecSourceTags(p) ==
  IF Len(p.data) = 0 THEN {}
  ELSE UNION {{<<r * Len(p.data), "VectorSource::start", "B:true">>,
               <<r * Len(p.data), "VectorSource::repeat", "U:" \o ToString(r)>>} : r \in 0 .. (p.repeat - 1)}
       \cup (IF p.repeat > 0 THEN {<<0, "VectorSource::first", "B:true">>} ELSE {})

(* ---- packets ------------------------------------------------------------ *)
(* The harness flattens packet streams as -1, b1, b2, ... per packet.       *)
RECURSIVE SplitPkts(_)
SplitPkts(f) ==
  IF Len(f) = 0 THEN <<>>
  ELSE LET nxt == IF \E i \in 2 .. Len(f) : f[i] = -1
                  THEN CHOOSE i \in 2 .. Len(f) : f[i] = -1 /\ \A j \in 2 .. (i - 1) : f[j] # -1
                  ELSE Len(f) + 1
       IN <<SubSeq(f, 2, nxt - 1)>> \o SplitPkts(SubSeq(f, nxt, Len(f)))
RECURSIVE Concat(_)
Concat(ss) == IF Len(ss) = 0 THEN <<>> ELSE Head(ss) \o Concat(Tail(ss))
(* VecToStream: packets concatenated (empty ones dropped); start / end tags *)
(* carrying the length on the first / last sample of each packet.           *)
V2S(p, ins) == << Concat(SplitPkts(ins[1])) >>
RECURSIVE V2STagsFrom(_, _)
V2STagsFrom(pk, off) ==
  IF Len(pk) = 0 THEN {}
  ELSE LET n == Len(Head(pk)) IN
       (IF n = 0 THEN {}
        ELSE {<<off, "VecToStream::start", "U:" \o ToString(n)>>,
              <<off + n - 1, "VecToStream::end", "U:" \o ToString(n)>>})
       \cup V2STagsFrom(Tail(pk), off + n)
V2STags(p, ins) == V2STagsFrom(SplitPkts(ins[1]), 0)

(* Burst tagger: data passes; a tag (index, B:cur) wherever trigger >       *)
(* threshold changes value (initially false).                               *)
BurstOut(p, ins) == << Take(ins[1], MinLen(ins)) >>
BurstTags(p, ins) ==
  LET t == ins[2] n == MinLen(ins)
      cur(k) == t[k] > p.threshold
  IN {<<k - 1, IF cur(k) THEN "B:true" ELSE "B:false">> :
        k \in {i \in 1 .. n : cur(i) # (IF i = 1 THEN FALSE ELSE cur(i - 1))}}

(* Text formatter for integer samples: decimal digits and newline per step, *)
(* values of one step separated by a space. ASCII codes.                    *)
RECURSIVE Digits(_)
Digits(n) == IF n < 10 THEN <<48 + n>> ELSE Digits(n \div 10) \o <<48 + (n % 10)>>
RECURSIVE TextFrom(_, _)
TextFrom(ins, k) ==
  IF k > MinLen(ins) THEN <<>>
  ELSE LET line == Concat([i \in 1 .. Len(ins) |->
                             (IF i > 1 THEN <<32>> ELSE <<>>) \o Digits(ins[i][k])])
       IN line \o <<10>> \o TextFrom(ins, k + 1)
ToTextFn(p, ins) == << TextFrom(ins, 1) >>

(* Map with the harness closures: (a x + b) mod m on bytes; x -> x - xi on    *)
(* floats. DebugFilter: one packet "<value> " per sample (no tags).           *)
AffineMod(p, ins) == << [k \in 1 .. Len(ins[1]) |-> (p.a * ins[1][k] + p.b) % p.m] >>
NegPair(p, ins) == << [k \in 1 .. Len(ins[1]) |-> CPack(ins[1][k], -ins[1][k])] >>
DebugText(p, ins) == [k \in 1 .. Len(ins[1]) |-> Digits(ins[1][k]) \o <<32>>]

(* FFT stream framing: output length is the largest multiple of p.size not  *)
(* above the input length; bin 0 of every frame is the sum of the frame     *)
(* (other bins are not integers in general: NoNum).                         *)
FftFrames(p, ins) ==
  LET x == ins[1] n == (Len(x) \div p.size) * p.size IN
  << [k \in 1 .. n |->
        IF (k - 1) % p.size = 0
        THEN CPack(SumSeq([j \in 1 .. p.size |-> CRe(x[k - 1 + j])]),
                   SumSeq([j \in 1 .. p.size |-> CIm(x[k - 1 + j])]))
        ELSE NoNum] >>

(* ---- FIR / FFT filters (C11) ---------------------------------------------- *)
(* Linear convolution with zero pre-history: y[k] = sum_j taps[j] * x[k-j+1]. *)
(* The FIR block emits the sliding dot product over whole windows only, i.e.  *)
(* y[(i-1)*deci + ntaps]; the FFT filters emit y[1..] in whole blocks of      *)
(* FftSize(ntaps) - ntaps samples: FFT output = FIR output delayed by         *)
(* ntaps - 1 samples.                                                         *)
X0(x, k) == IF k >= 1 /\ k <= Len(x) THEN x[k] ELSE 0
RECURSIVE DotFrom(_, _, _, _)
DotFrom(taps, x, base, j) ==
  IF j > Len(taps) THEN 0 ELSE taps[j] * X0(x, base - j) + DotFrom(taps, x, base, j + 1)
ConvAt(taps, x, k) == DotFrom(taps, x, k + 1, 1)
(* complex samples and taps in packed form *)
XC(x, k) == IF k >= 1 /\ k <= Len(x) THEN <<CRe(x[k]), CIm(x[k])>> ELSE <<0, 0>>
RECURSIVE DotFromC(_, _, _, _)
DotFromC(taps, x, base, j) ==
  IF j > Len(taps) THEN <<0, 0>>
  ELSE LET t == taps[j] v == XC(x, base - j) r == DotFromC(taps, x, base, j + 1)
       IN <<t[1] * v[1] - t[2] * v[2] + r[1], t[1] * v[2] + t[2] * v[1] + r[2]>>
ConvAtC(taps, x, k) == LET r == DotFromC(taps, x, k + 1, 1) IN CPack(r[1], r[2])
FirCount(len, nt, deci) == IF len - nt + 1 > 0 THEN (len - nt + 1) \div deci ELSE 0
FirFn(p, ins) ==
  LET x == ins[1] nt == Len(p.taps) IN
  << [i \in 1 .. FirCount(Len(x), nt, p.deci) |-> ConvAt(p.taps, x, (i - 1) * p.deci + nt)] >>
FirFnC(p, ins) ==
  LET x == ins[1] nt == Len(p.taps) IN
  << [i \in 1 .. FirCount(Len(x), nt, p.deci) |-> ConvAtC(p.taps, x, (i - 1) * p.deci + nt)] >>
NextPow2(n) == CHOOSE q \in {2 ^ k : k \in 0 .. 14} : q >= n /\ (q = 1 \/ q \div 2 < n)
FftSize(nt) == 2 * NextPow2(nt)
FftBlock(nt) == FftSize(nt) - nt
FftFiltFn(p, ins) ==
  LET x == ins[1] ns == FftBlock(Len(p.taps)) IN
  << [k \in 1 .. ns * (Len(x) \div ns) |-> ConvAt(p.taps, x, k)] >>
FftFiltFnC(p, ins) ==
  LET x == ins[1] ns == FftBlock(Len(p.taps)) IN
  << [k \in 1 .. ns * (Len(x) \div ns) |-> ConvAtC(p.taps, x, k)] >>
(* FastFM: y[n] = (im[n] - im[n-2]) * re[n-1] - (re[n] - re[n-2]) * im[n-1]   *)
FastFmFn(p, ins) ==
  LET x == ins[1] IN
  << [k \in 1 .. Len(x) |->
        LET s == XC(x, k) q1 == XC(x, k - 1) q2 == XC(x, k - 2)
        IN (s[2] - q2[2]) * q1[1] - (s[1] - q2[1]) * q1[2]] >>
(* Quadrature demodulation of samples on the 8 principal directions, in      *)
(* eighth turns: arg(x[n] * conj(x[n-1])) with arg(0) = 0.                    *)
Arg8(re, im) ==
  IF re = 0 /\ im = 0 THEN 0
  ELSE IF im = 0 THEN (IF re > 0 THEN 0 ELSE 4)
  ELSE IF re = 0 THEN (IF im > 0 THEN 2 ELSE -2)
  ELSE IF re = im THEN (IF re > 0 THEN 1 ELSE -3)
  ELSE IF re = -im THEN (IF re > 0 THEN -1 ELSE 3)
  ELSE 99                                  \* not a principal direction
QuadDemod8(p, ins) ==
  LET x == ins[1] IN
  << [k \in 1 .. Len(x) |->
        LET s == XC(x, k) q == XC(x, k - 1)
            re == s[1] * q[1] + s[2] * q[2]
            im == s[2] * q[1] - s[1] * q[2]
        IN p.gain8 * Arg8(re, im)] >>
(* Single-pole IIR with alpha = 1/2^a: y[n] = alpha x[n] + (1 - alpha) y[n-1]; *)
(* values scaled by 2^(a*n) stay integers: compared for the first p.n samples *)
(* at the fixed scale 2^(a * p.n).                                            *)
RECURSIVE SpIirFrom(_, _, _, _, _)
SpIirFrom(a, x, k, prev, scale) ==
  \* prev is y[k-1] * scale
  IF k > Len(x) THEN <<>>
  ELSE LET y == (x[k] * scale + (2 ^ a - 1) * prev) \div (2 ^ a) IN <<y>> \o SpIirFrom(a, x, k + 1, y, scale)
SpIirFn(p, ins) == << SpIirFrom(p.a, ins[1], 1, 0, p.scale) >>

(* Stream to PDU (tag-driven): a sample tagged `true` starts a burst and is *)
(* kept; a sample tagged `false` is dropped and p.tail more samples are     *)
(* kept; the burst is emitted when the next sample after the tail arrives;  *)
(* a burst growing beyond p.max samples is discarded.                       *)
RECURSIVE PduFrom(_, _, _, _, _, _)
PduFrom(p, x, tg, k, buf, endc) ==
  \* endc: -1 = no end counter, otherwise samples still to take
  IF k > Len(x) THEN <<>>
  ELSE LET emit == endc = 0
           buf1 == IF emit THEN <<>> ELSE buf
           endc1 == IF emit THEN -1 ELSE endc
           tv == IF <<k - 1, "B:true">> \in tg THEN "t" ELSE IF <<k - 1, "B:false">> \in tg THEN "f" ELSE "n"
           step == IF endc1 >= 0 THEN <<Append(buf1, x[k]), endc1 - 1>>
                   ELSE IF tv = "f" THEN <<buf1, p.tail>>
                   ELSE IF tv = "t" THEN <<Append(buf1, x[k]), -1>>
                   ELSE IF Len(buf1) > 0 THEN <<Append(buf1, x[k]), -1>>
                   ELSE <<buf1, -1>>
           over == Len(step[1]) > p.max
           buf2 == IF over THEN <<>> ELSE step[1]
           endc2 == IF over THEN -1 ELSE step[2]
       IN (IF emit THEN <<buf>> ELSE <<>>) \o PduFrom(p, x, tg, k + 1, buf2, endc2)
StreamToPduFn(p, ins, tg) == PduFrom(p, ins[1], tg, 1, <<>>, -1)
=============================================================================
