-------------------------- MODULE StreamMT_Trace --------------------------
(* Trace validation for StreamMT. One trace line = one grant of the        *)
(* controlled scheduler = one StreamMT action of the granted thread:       *)
(*   [t |-> "P"|"C", pt |-> kind of point the thread was parked at,        *)
(*    g |-> "go"|"timeout"|"notified", cmd |-> command given at a "cmd"    *)
(*    point, evs |-> events the real code emitted during the step]         *)
(* The thread's model pc must be at a point of the same kind, and the      *)
(* events must be exactly those the action produces, with equal values.    *)
EXTENDS StreamMT, Json, IOUtils, TLCExt

VARIABLE l
Rec == ndJsonDeserialize(IOEnv.TRACE)
tvars == <<vars, l>>

TraceInit == Init /\ l = 1

Kinds(s) == [i \in 1 .. Len(s.evs) |-> s.evs[i].ev]
RingIs(e) == rpos' = e.rpos /\ wpos' = e.wpos /\ used' = e.used

PStep(s) ==
  \/ /\ s.pt = "start" /\ P_Start /\ Kinds(s) = <<>>
  \/ /\ s.pt = "cmd" /\ ppc = "cmd"
     /\ \/ s.cmd.op = "acqw" /\ P_CmdAcqW /\ Kinds(s) = <<>>
        \/ s.cmd.op = "put" /\ P_CmdPut(s.cmd.k, s.cmd.n) /\ Kinds(s) = <<>>
        \/ s.cmd.op = "dropwin" /\ P_CmdDropWin /\ Kinds(s) = <<"ret">>
        \/ s.cmd.op = "free" /\ P_CmdFree /\ Kinds(s) = <<>>
        \/ s.cmd.op = "waitw" /\ P_CmdWaitW(s.cmd.need) /\ Kinds(s) = <<>>
        \/ s.cmd.op = "drop" /\ P_CmdDrop /\ Kinds(s) = <<>>
  \/ /\ s.pt = "lock"
     /\ \/ /\ P_LockAcqW /\ Kinds(s) = <<"acqw">>
           /\ pwin' = <<s.evs[1].start, s.evs[1].end - s.evs[1].start>> /\ RingIs(s.evs[1])
        \/ /\ P_LockCommit /\ Kinds(s) = <<"produce">>
           /\ s.evs[1].n = parg[2] /\ s.evs[1].ntags = parg[2] /\ RingIs(s.evs[1])
        \/ /\ P_LockFree /\ Kinds(s) = <<>>
        \/ /\ P_LockWaitW
           /\ Kinds(s) = IF ppc' = "unlocked:waitw" THEN <<"cvret">> ELSE <<>>
           /\ ppc' = "unlocked:waitw" => s.evs[1].timeout = FALSE
  \/ /\ s.pt = "cvwait" /\ P_CvWaitW(s.g)
     /\ Kinds(s) = IF ppc' = "unlocked:waitw" THEN <<"cvret">> ELSE <<>>
  \/ /\ s.pt = "unlocked"
     /\ \/ /\ P_UnlAcqW /\ Kinds(s) = <<"ret">> /\ s.evs[1].op = "acqw"
           /\ pwin = <<s.evs[1].start, s.evs[1].len>>
        \/ /\ P_UnlCommit /\ Kinds(s) = <<"ret">> /\ s.evs[1].op = "put"
        \/ /\ P_UnlFree /\ Kinds(s) = <<"ret">> /\ s.evs[1].op = "free" /\ s.evs[1].free = pgot
        \/ /\ P_UnlWaitW /\ Kinds(s) = <<"ret">> /\ s.evs[1].op = "waitw"
           /\ s.evs[1].never = (pret' = "never")
  \/ /\ s.pt = "mem_write" /\ P_MemWrite
     /\ Kinds(s) = IF parg[2] = 0 THEN <<"ret">> ELSE <<>>
  \/ /\ s.pt = "rc" /\ P_RcWaitW /\ Kinds(s) = <<>>
  \/ /\ s.pt = "drop_write" /\ P_Drop /\ Kinds(s) = <<"drop">> /\ s.evs[1].side = "w"

CStep(s) ==
  \/ /\ s.pt = "start" /\ C_Start /\ Kinds(s) = <<>>
  \/ /\ s.pt = "cmd" /\ cpc = "cmd"
     /\ \/ s.cmd.op = "acqr" /\ C_CmdAcqR /\ Kinds(s) = <<>>
        \/ s.cmd.op = "get" /\ C_CmdGet(s.cmd.m) /\ Kinds(s) = <<>>
        \/ s.cmd.op = "dropwin" /\ C_CmdDropWin /\ Kinds(s) = <<"ret">>
        \/ s.cmd.op = "waitr" /\ C_CmdWaitR(s.cmd.need) /\ Kinds(s) = <<>>
        \/ s.cmd.op = "eof" /\ C_CmdEof /\ Kinds(s) = <<>>
        \/ s.cmd.op = "drop" /\ C_CmdDrop /\ Kinds(s) = <<>>
  \/ /\ s.pt = "lock"
     /\ \/ /\ C_LockAcqR /\ Kinds(s) = <<"acqr">>
           /\ cwin'[1] = s.evs[1].start /\ cwin'[2] = s.evs[1].end - s.evs[1].start /\ RingIs(s.evs[1])
           /\ s.evs[1].ntags = Cardinality(cwin'[3])
        \/ /\ C_LockConsume /\ Kinds(s) = <<"consume">>
           /\ s.evs[1].n = carg[1] /\ RingIs(s.evs[1])
        \/ /\ C_LockWaitR
           /\ Kinds(s) = IF cpc' = "unlocked:waitr" THEN <<"cvret">> ELSE <<>>
        \/ /\ C_LockEof /\ Kinds(s) = <<"acqr">>
           /\ s.evs[1].end - s.evs[1].start = cgot' /\ RingIs(s.evs[1])
           /\ s.evs[1].ntags = Cardinality(WinTags(rpos, used))
  \/ /\ s.pt = "cvwait" /\ C_CvWaitR(s.g)
     /\ Kinds(s) = IF cpc' = "unlocked:waitr" THEN <<"cvret">> ELSE <<>>
  \/ /\ s.pt = "unlocked"
     /\ \/ /\ C_UnlAcqR /\ Kinds(s) = <<"ret">> /\ s.evs[1].op = "acqr"
           /\ cwin[1] = s.evs[1].start /\ cwin[2] = s.evs[1].len
           \* the tags handed out with the window: [[position, id], ...]
           /\ Len(s.evs[1].tags) = Cardinality(cwin[3])
           /\ {<<s.evs[1].tags[i][1], s.evs[1].tags[i][2]>> : i \in 1 .. Len(s.evs[1].tags)} = cwin[3]
        \/ /\ C_UnlConsume /\ Kinds(s) = <<"ret">> /\ s.evs[1].op = "get"
        \/ /\ C_UnlWaitR /\ Kinds(s) = <<"ret">> /\ s.evs[1].op = "waitr"
           /\ s.evs[1].never = (cret' = "never")
        \/ /\ C_UnlEof /\ Kinds(s) = <<"ret">> /\ s.evs[1].op = "eof"
           /\ s.evs[1].eof = (cret' = "eof")
  \/ /\ s.pt = "mem_read" /\ C_MemRead
     /\ Kinds(s) = IF carg[1] = 0 THEN <<"read", "ret">> ELSE <<"read">>
     /\ s.evs[1].ok = TRUE /\ s.evs[1].len = cwin[2]
  \/ /\ s.pt = "rc"
     /\ \/ C_RcWaitR /\ Kinds(s) = <<>>
        \/ /\ C_RcEof
           /\ Kinds(s) = IF cpc' = "cmd" THEN <<"ret">> ELSE <<>>
           /\ cpc' = "cmd" => (s.evs[1].op = "eof" /\ s.evs[1].eof = FALSE)
  \/ /\ s.pt = "drop_read" /\ C_Drop /\ Kinds(s) = <<"drop">> /\ s.evs[1].side = "r"

Reset(s) ==
  /\ s.pt = "reset" /\ s.cap = Cap
  /\ rpos' = 0 /\ wpos' = 0 /\ used' = 0 /\ mem' = [c \in Cells |-> 0]
  /\ produced' = 0 /\ consumed' = 0 /\ tags' = {}
  /\ wAlive' = TRUE /\ rAlive' = TRUE
  /\ ppc' = "start" /\ pwin' = <<>> /\ parg' = <<>> /\ pgot' = 0 /\ pclosed' = FALSE
  /\ pret' = NoRet /\ pcalls' = 0
  /\ cpc' = "start" /\ cwin' = <<>> /\ carg' = <<>> /\ cgot' = 0 /\ cclosed' = FALSE
  /\ cret' = NoRet /\ ccalls' = 0
  /\ notified' = [t \in {"P", "C"} |-> FALSE]
  /\ readOK' = TRUE /\ lateFalse' = 0 /\ started' = FALSE

(* No lost wakeups: before every step the threads that have a notification  *)
(* on offer in the implementation are exactly those the model has notified. *)
NotifiedAgree(s) ==
  ("nf" \in DOMAIN s) => {t \in {"P", "C"} : notified[t]} = {s.nf[i] : i \in 1 .. Len(s.nf)}
TraceNext ==
  /\ l <= Len(Rec)
  /\ LET s == Rec[l] IN
       \/ Reset(s)
       \/ s.t = "P" /\ NotifiedAgree(s) /\ PStep(s)
       \/ s.t = "C" /\ NotifiedAgree(s) /\ CStep(s)
  /\ l' = l + 1

TraceSpec == TraceInit /\ [][TraceNext]_tvars

TraceAccepted ==
  LET d == TLCGet("stats").diameter IN
  IF d - 1 = Len(Rec) THEN TRUE
  ELSE /\ PrintT("TRACE-REJECTED at event " \o ToString(d) \o " " \o
                 (IF d <= Len(Rec) THEN ToJson(Rec[d]) ELSE "end"))
       /\ FALSE
=============================================================================
