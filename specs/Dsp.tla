-------------------------------- MODULE Dsp --------------------------------
(* The two filtering algorithms of rustradio as state machines (C11):        *)
(*  - FftFilter: overlap-add. Input is collected into blocks of              *)
(*    ns = FftSize(ntaps) - ntaps samples, each block is convolved with the  *)
(*    taps (by FFT in the code, by definition here), the first ntaps outputs *)
(*    get the previous block's tail added and the new tail is kept.          *)
(*  - FirFilter: decimating sliding dot product with the reversed taps; a    *)
(*    work() call consumes a multiple of the decimation, bounded by input    *)
(*    and by output space.                                                   *)
(* Checked: whatever the chunking of the input and the output space, both    *)
(* emit a prefix of the linear convolution (BlockFns!FirFn / FftFiltFn) with *)
(* exact counts, and the FFT output is the FIR output delayed by ntaps - 1.  *)
EXTENDS Integers, Sequences, FiniteSets, TLC
F == INSTANCE BlockFns

CONSTANTS Alphabet, MaxLen, TapSets, Decis, MaxSpace,
          Quirk     \* "none"; seeded design errors for non-vacuity: "no_tail", "no_reverse", "phase_lost"
VARIABLES taps, deci, x, consO, buf, tail, outO, consF, outF
vars == <<taps, deci, x, consO, buf, tail, outO, consF, outF>>

Min2(a, b) == IF a < b THEN a ELSE b
Rev(s) == [i \in 1 .. Len(s) |-> s[Len(s) + 1 - i]]
RECURSIVE DotRev(_, _, _, _)
DotRev(rev, xs, base, j) == IF j > Len(rev) THEN 0 ELSE rev[j] * xs[base + j] + DotRev(rev, xs, base, j + 1)

Init == /\ taps \in TapSets /\ deci \in Decis
        /\ x = <<>> /\ consO = 0 /\ buf = <<>> /\ tail = [i \in 1 .. Len(taps) |-> 0] /\ outO = <<>>
        /\ consF = 0 /\ outF = <<>>

Feed == /\ Len(x) < MaxLen
        /\ \E v \in Alphabet : x' = Append(x, v)
        /\ UNCHANGED <<taps, deci, consO, buf, tail, outO, consF, outF>>

(* one iteration of FftFilter::work()'s loop *)
WorkO ==
  LET nt == Len(taps) ns == F!FftBlock(nt)
      add == Min2(Len(x) - consO, ns - Len(buf))
      buf1 == buf \o SubSeq(x, consO + 1, consO + add)
  IN /\ add > 0
     /\ consO' = consO + add
     /\ IF Len(buf1) < ns THEN buf' = buf1 /\ UNCHANGED <<tail, outO>>
        ELSE LET y == [k \in 1 .. ns + nt |-> F!ConvAt(taps, buf1, k)] IN
             /\ outO' = outO \o [k \in 1 .. ns |-> y[k] + (IF k <= nt /\ Quirk # "no_tail" THEN tail[k] ELSE 0)]
             /\ tail' = [i \in 1 .. nt |-> y[ns + i]]
             /\ buf' = <<>>
     /\ UNCHANGED <<taps, deci, x, consF, outF>>

(* one FirFilter::work() with `space` free output samples *)
WorkF(space) ==
  LET nt == Len(taps) avail == Len(x) - consF IN
  /\ avail >= nt + deci - 1
  /\ LET n0 == deci * ((avail - nt + 1) \div deci)
         n == Min2(n0, space * deci)
     IN /\ outF' = outF \o [i \in 1 .. (n \div deci) |-> DotRev(IF Quirk = "no_reverse" THEN taps ELSE Rev(taps), x, consF + (i - 1) * deci, 1)]
        /\ consF' = consF + (IF Quirk = "phase_lost" /\ n < n0 THEN n + 1 ELSE n)
  /\ UNCHANGED <<taps, deci, x, consO, buf, tail, outO>>

Next == Feed \/ WorkO \/ \E s \in 1 .. MaxSpace : WorkF(s)
Spec == Init /\ [][Next]_vars

Prefix(s, t) == Len(s) <= Len(t) /\ \A i \in 1 .. Len(s) : s[i] = t[i]
OverlapAddIsConvolution ==
  /\ outO = [k \in 1 .. Len(outO) |-> F!ConvAt(taps, x, k)]
  /\ Len(outO) + Len(buf) = consO
  /\ Len(outO) = F!FftBlock(Len(taps)) * (consO \div F!FftBlock(Len(taps)))
  /\ Len(buf) < F!FftBlock(Len(taps))
  \* everything delivered has been taken: output is exactly FftFiltFn of the input
  /\ consO = Len(x) => outO = F!FftFiltFn([taps |-> taps], <<x>>)[1]
FirKeepsPhase ==
  /\ Prefix(outF, F!FirFn([taps |-> taps, deci |-> deci], <<x>>)[1])
  /\ consF = deci * Len(outF)
  \* quiescent: nothing more can be produced from what was delivered
  /\ Len(x) - consF < Len(taps) + deci - 1 => Len(outF) = F!FirCount(Len(x), Len(taps), deci)
FftIsDelayedFir ==
  deci = 1 => \A i \in 1 .. Len(outF) : i + Len(taps) - 1 <= Len(outO) => outO[i + Len(taps) - 1] = outF[i]
BlockNotSmallerThanTaps == F!FftBlock(Len(taps)) >= Len(taps)
=============================================================================
