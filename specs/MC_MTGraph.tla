----------------------------- MODULE MC_MTGraph -----------------------------
(* Constant definitions for model checking MTGraph, and export of every     *)
(* explored transition as a schedule step.                                  *)
EXTENDS MTGraph, Json
NoFail == {}
TotalsInf == {Inf}
FailSmall == {<<b, k>> : b \in 1 .. N, k \in 1 .. 2}

Cfg == [total |-> total, fail |-> fail, order |-> order, cancel |-> (cpc # "none")]
Edge(t, b, pt, g) ==
  PrintT(<<"EDGE", ToJson([from |-> ToString(vars), act |-> [t |-> t, b |-> b, pt |-> pt, g |-> g],
                            to |-> ToString(vars'), cfg |-> Cfg])>>)
NextE ==
  \/ \E b \in Blocks : TNoCv(b) /\ Edge("b", b, PtOf(pc[b]), "go")
  \/ \E b \in Blocks : \E k \in {"timeout", "notified"} : TCv(b, k) /\ Edge("b", b, "cvwait", k)
  \/ M_Start /\ Edge("main", 0, "start", "go")
  \/ M_Join /\ Edge("main", 0, "join", "go")
  \/ C_Cancel /\ Edge("canc", 0, "start", "go")
SpecE == Init /\ [][NextE]_vars
=============================================================================
