--------------------------- MODULE MC_ByteFormats ---------------------------
(* Enumeration of codec values (bit patterns as 16-bit limbs, incl. NaN     *)
(* payloads, infinities, extremes) and of every split of a byte stream      *)
(* into read() results, exported for the harness.                           *)
EXTENDS ByteFormats, Json
CONSTANTS N     \* length of the byte stream to split
VARIABLE x
L == {0, 1, 255, 256, 32767, 32768, 65535, 32704, 32640, 65408, 65472, 4660}
ValsU8 == {[type |-> "u8", limbs |-> <<v>>] : v \in {0, 1, 127, 128, 254, 255}}
Vals32 == {[type |-> t, limbs |-> <<a, b>>] : t \in {"u32", "i32", "f32"}, a \in L, b \in L}
ValsC == {[type |-> "c32", limbs |-> <<a, b, c, d>>] : a \in {0, 32704, 65535}, b \in {1, 65535}, c \in {32640, 4660, 65408}, d \in {0, 256}}
Splits == {[size |-> s, pieces |-> c] : s \in {1, 4, 8}, c \in Compositions(N)}
Init == x \in [kind : {"val"}, v : ValsU8 \cup Vals32 \cup ValsC] \cup [kind : {"split"}, v : Splits]
Next == UNCHANGED x
Spec == Init /\ [][Next]_x
(* Model-level facts: parse inverts serialise; grouping does not depend on  *)
(* the split (it is a function of the byte stream alone, checked here as    *)
(* total length conservation).                                              *)
RECURSIVE Sum(_)
Sum(s) == IF Len(s) = 0 THEN 0 ELSE Head(s) + Sum(Tail(s))
RoundTrip == x.kind = "val" => ParseSample(SerializeSample(x.v.limbs)) = x.v.limbs
SplitSums == x.kind = "split" => Sum(x.v.pieces) = N
Export == PrintT(<<"CASE", ToJson(x)>>)
=============================================================================
