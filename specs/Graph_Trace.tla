---------------------------- MODULE Graph_Trace ----------------------------
(* Trace validation for Graph: events emitted by the hooks in Graph::run    *)
(* (g_pass, g_work, g_eof, g_pass_end), by the harness wrapper blocks       *)
(* (call, cancel) and by the harness around run() (config, g_return).       *)
EXTENDS Graph, Json, IOUtils, TLCExt

VARIABLE l
Rec == ndJsonDeserialize(IOEnv.TRACE)
tvars == <<vars, l>>

TraceInit ==
  /\ l = 1
  /\ kinds = <<"src_eof", "sink">> /\ order = <<1, 2>> /\ total = 0 /\ left = 0
  /\ q = <<0>> /\ phase = <<0, 0>> /\ got = 0 /\ eof = <<FALSE, FALSE>>
  /\ idx = 0 /\ done = TRUE /\ moved = FALSE /\ returned = TRUE /\ cancelled = FALSE
  /\ err = FALSE /\ fail = <<0, 0>> /\ calls = <<0, 0>> /\ after = <<0, 0>>

Verdict(s) == IF s = "Again" THEN "again" ELSE IF s = "EOF" THEN "eof"
              ELSE IF s = "WaitForStream" THEN "wait" ELSE IF s = "Pending" THEN "pending" ELSE s

Same == UNCHANGED vars

Config(e) ==
  /\ e.ev = "config" /\ e.cap = Cap
  /\ kinds' = e.kinds /\ order' = e.order /\ total' = e.total /\ left' = e.total
  /\ q' = [i \in 1 .. (Len(e.kinds) - 1) |-> 0]
  /\ phase' = [b \in 1 .. Len(e.kinds) |-> 0]
  /\ got' = 0 /\ eof' = [b \in 1 .. Len(e.kinds) |-> FALSE]
  /\ idx' = 0 /\ done' = TRUE /\ moved' = FALSE
  /\ returned' = FALSE /\ cancelled' = FALSE /\ err' = FALSE
  /\ fail' = <<e.fail[1], e.fail[2]>>
  /\ calls' = [b \in 1 .. Len(e.kinds) |-> 0]
  /\ after' = [b \in 1 .. Len(e.kinds) |-> 0]

Ev(e) ==
  \/ Config(e)
  \/ e.ev = "g_pass" /\ PassBegin
  \/ /\ e.ev = "call"
     /\ IF fail = <<e.b, e.k>>
        THEN Step /\ err' /\ order[Cur] = e.b
        ELSE Same /\ ~returned /\ Cur <= N /\ order[Cur] = e.b /\ calls[e.b] + 1 = e.k
  \/ e.ev = "cancel" /\ Cancel
  \/ /\ e.ev = "g_work" /\ Cur = e.b + 1 /\ Step /\ ~err'
     /\ Verdict(e.ret) = Work(order[Cur])[5]
  \/ e.ev = "g_eof" /\ Same /\ eof[order[e.b + 1]]
  \/ e.ev = "g_pass_end" /\ PassEnd /\ e.done = done
  \/ /\ e.ev = "g_return" /\ Same /\ returned
     /\ e.outcome = (IF err THEN "err" ELSE "ok")
     /\ e.got = got /\ e.prefix_ok = TRUE
     /\ \A b \in Blocks : e.calls[b] = calls[b]

TraceNext == /\ l <= Len(Rec) /\ Ev(Rec[l]) /\ l' = l + 1
TraceSpec == TraceInit /\ [][TraceNext]_tvars

TraceAccepted ==
  LET d == TLCGet("stats").diameter IN
  IF d - 1 = Len(Rec) THEN TRUE
  ELSE /\ PrintT("TRACE-REJECTED at event " \o ToString(d) \o " " \o
                 (IF d <= Len(Rec) THEN ToJson(Rec[d]) ELSE "end"))
       /\ FALSE
=============================================================================
