------------------------------ MODULE MTGraph ------------------------------
(* The multithreaded runner MTGraph::run (src/mtgraph.rs:68-150): one       *)
(* thread per block, each running                                           *)
(*    while !cancelled { work(); match verdict {                            *)
(*        Again => continue, EOF => break,                                  *)
(*        WaitForStream(s, need) => { never = s.wait(need);                 *)
(*                                    if b.eof() || never { break } } } }   *)
(* then dropping the block (its stream handles), and a main thread that     *)
(* spawns all threads and joins them in add order.                          *)
(*                                                                          *)
(* Grain: one step = the code a thread runs between two scheduling points   *)
(* of the controlled scheduler (lock, unlocked, condvar wait, refcount      *)
(* read "rc", handle drop, "loop", "start", "join"), exactly as in          *)
(* StreamMT.tla. Streams are counted (contents are compared with the        *)
(* reference at the end of real runs).                                      *)
(*                                                                          *)
(* Graph: a chain  src -> sync* -> sink  (VectorSource, derive(sync) blocks *)
(* such as AddConst, VectorSink), each following the exact sequence of      *)
(* stream calls of the real block.                                          *)
(*                                                                          *)
(* Properties: C05 (Terminates, ResultRight), C07 (CancelBounded,           *)
(* AllExited, FailIsErr).                                                   *)
EXTENDS Integers, Sequences, FiniteSets, TLC

CONSTANTS N,          \* number of blocks (>= 2)
          Cap,        \* capacity of every stream
          Totals,     \* set of source lengths explored
          MayCancel,  \* BOOLEAN: a canceller thread exists
          FailAt,     \* set of <<block, k>> (k-th work() of block fails); {} = none
          AllOrders,  \* BOOLEAN: explore every add order (join order)
          Quirks      \* "join_panics": run() panics on a block error (pre-fix)

Blocks  == 1 .. N
Streams == 1 .. (N - 1)
Kind(b) == IF b = 1 THEN "src" ELSE IF b = N THEN "sink" ELSE "sync"
In(b)  == b - 1       \* input stream of block b  (b > 1)
Out(b) == b           \* output stream of block b (b < N)

VARIABLES used, wAlive, rAlive,                      \* per stream
          total, left, got, cancelled, fail,         \* global
          pc, winIn, winOut, nmove, wgot, closed, never, egot, notified,
          calls, after, errd,                        \* per block thread
          mpc, mj, result,                           \* main thread
          cpc,                                       \* canceller thread
          order                                      \* add order (join order); spawn order is its reverse

svars == <<used, wAlive, rAlive>>
gvars == <<total, left, got, cancelled, fail>>
tvars == <<pc, winIn, winOut, nmove, wgot, closed, never, egot, notified, calls, after, errd>>
mvars == <<mpc, mj, result>>
vars  == <<svars, gvars, tvars, mvars, cpc, order>>

Min(a, b) == IF a < b THEN a ELSE b
MaxCalls == 4
(* An infinite source (VectorSource with Repeat::infinite over RepLen        *)
(* samples): total = Inf, `left` is what remains of the current repetition   *)
(* and the sink count saturates. Such a run ends only by cancellation.       *)
Inf == -1
RepLen == 3
MaxGot == 8
Perms == {s \in [1 .. N -> 1 .. N] : \A i, j \in 1 .. N : i # j => s[i] # s[j]}
Orders == IF AllOrders THEN Perms ELSE {[i \in 1 .. N |-> i]}

Init ==
  /\ used = [s \in Streams |-> 0]
  /\ wAlive = [s \in Streams |-> TRUE] /\ rAlive = [s \in Streams |-> TRUE]
  /\ total \in Totals /\ left = (IF total = Inf THEN RepLen ELSE total) /\ got = 0 /\ cancelled = FALSE
  /\ fail \in (IF FailAt = {} THEN {<<0, 0>>} ELSE FailAt)
  /\ pc = [b \in Blocks |-> "unborn"]
  /\ winIn = [b \in Blocks |-> 0] /\ winOut = [b \in Blocks |-> 0]
  /\ nmove = [b \in Blocks |-> 0] /\ wgot = [b \in Blocks |-> 0]
  /\ closed = [b \in Blocks |-> FALSE] /\ never = [b \in Blocks |-> FALSE]
  /\ egot = [b \in Blocks |-> 0] /\ notified = [b \in Blocks |-> FALSE]
  /\ calls = [b \in Blocks |-> 0] /\ after = [b \in Blocks |-> 0]
  /\ errd = [b \in Blocks |-> FALSE]
  /\ mpc = "start:main" /\ mj = 1 /\ result = "-"
  /\ cpc = IF MayCancel THEN "start" ELSE "none"
  /\ order \in Orders

---------------------------------------------------------------------------
(* Point kind of a pc value "<kind>:<op>".                                  *)
PointKinds == {"start", "loop", "lock", "unlocked", "cvwait", "rc", "drop_read", "drop_write", "join"}
Ops == {"thread", "top", "r", "w", "c", "p", "wi", "wo", "e", "exit", "main"}
PtOf(p) == IF \E k \in PointKinds : \E o \in Ops : p = k \o ":" \o o
           THEN CHOOSE k \in PointKinds : \E o \in Ops : p = k \o ":" \o o
           ELSE p

(* Helpers. `Set(f, b, v)` is f with f[b] = v.                              *)
Set(f, b, v) == [f EXCEPT ![b] = v]

(* First handle dropped when block b is dropped (fields in declaration     *)
(* order: AddConst {val, src, dst}; VectorSource {dst, ..}; VectorSink      *)
(* {src, ..}).                                                              *)
ExitPc(b) == IF Kind(b) = "src" THEN "drop_write:exit" ELSE "drop_read:exit"
(* `while !cancel_token.is_canceled()` is evaluated at the end of the step  *)
(* that finishes an iteration.                                              *)
Again(b) == IF cancelled THEN ExitPc(b) ELSE "loop:top"

(* notify_all on stream s: waiters parked on its condvar become notifiable. *)
NotifyOn(s) == [b \in Blocks |->
   IF (pc[b] = "cvwait:wi" /\ b > 1 /\ In(b) = s) \/ (pc[b] = "cvwait:wo" /\ b < N /\ Out(b) = s)
   THEN TRUE ELSE notified[b]]

(* After the wait (and eof check): break or go round again.                 *)
Decide(b, eofv) == IF eofv \/ never[b] THEN ExitPc(b) ELSE Again(b)

---------------------------------------------------------------------------
(* Block thread steps. Each conjunct list names the parked point (prefix of *)
(* pc before ':') and what the code does until the next park.               *)

T_Start(b) ==      \* thread_start(): registered; evaluates the while condition
  /\ pc[b] = "start:thread"
  /\ pc' = Set(pc, b, Again(b))
  /\ UNCHANGED <<svars, gvars, winIn, winOut, nmove, wgot, closed, never, egot, notified,
                 calls, after, errd, mvars, cpc, order>>

T_Loop(b) ==       \* b.work() begins
  /\ pc[b] = "loop:top"
  /\ calls' = Set(calls, b, Min(calls[b] + 1, MaxCalls))     \* saturating: only small k matter
  /\ after' = Set(after, b, IF cancelled THEN Min(after[b] + 1, 2) ELSE after[b])
  /\ IF fail = <<b, calls[b] + 1>>
     THEN /\ errd' = Set(errd, b, TRUE) /\ pc' = Set(pc, b, ExitPc(b))
     ELSE /\ errd' = errd
          /\ pc' = Set(pc, b,
                IF Kind(b) = "src" THEN (IF total = 0 THEN ExitPc(b) ELSE "lock:w")
                ELSE "lock:r")
  /\ UNCHANGED <<svars, gvars, winIn, winOut, nmove, wgot, closed, never, egot, notified,
                 mvars, cpc, order>>

T_LockR(b) ==      \* read_buf(): snapshot
  /\ pc[b] = "lock:r"
  /\ winIn' = Set(winIn, b, used[In(b)]) /\ pc' = Set(pc, b, "unlocked:r")
  /\ UNCHANGED <<svars, gvars, winOut, nmove, wgot, closed, never, egot, notified,
                 calls, after, errd, mvars, cpc, order>>
T_UnlR(b) ==
  /\ pc[b] = "unlocked:r"
  /\ pc' = Set(pc, b,
        IF winIn[b] = 0 THEN "rc:wi"                 \* WaitForStream(src, 1)
        ELSE IF Kind(b) = "sink" THEN "lock:c" ELSE "lock:w")
  /\ nmove' = Set(nmove, b, IF Kind(b) = "sink" THEN winIn[b] ELSE nmove[b])
  /\ UNCHANGED <<svars, gvars, winIn, winOut, wgot, closed, never, egot, notified,
                 calls, after, errd, mvars, cpc, order>>

T_LockW(b) ==      \* write_buf(): snapshot
  /\ pc[b] = "lock:w"
  /\ winOut' = Set(winOut, b, Cap - used[Out(b)]) /\ pc' = Set(pc, b, "unlocked:w")
  /\ UNCHANGED <<svars, gvars, winIn, nmove, wgot, closed, never, egot, notified,
                 calls, after, errd, mvars, cpc, order>>
T_UnlW(b) ==
  /\ pc[b] = "unlocked:w"
  /\ IF winOut[b] = 0
     THEN pc' = Set(pc, b, "rc:wo") /\ nmove' = nmove      \* WaitForStream(dst, 1)
     ELSE IF Kind(b) = "src"
          THEN pc' = Set(pc, b, "lock:p") /\ nmove' = Set(nmove, b, Min(winOut[b], left))
          ELSE pc' = Set(pc, b, "lock:c") /\ nmove' = Set(nmove, b, Min(winIn[b], winOut[b]))
  /\ UNCHANGED <<svars, gvars, winIn, winOut, wgot, closed, never, egot, notified,
                 calls, after, errd, mvars, cpc, order>>

T_LockC(b) ==      \* consume(n)
  /\ pc[b] = "lock:c"
  /\ used' = Set(used, In(b), used[In(b)] - nmove[b])
  /\ got' = IF Kind(b) = "sink" THEN (IF total = Inf THEN Min(got + nmove[b], MaxGot) ELSE got + nmove[b]) ELSE got
  /\ notified' = NotifyOn(In(b))
  /\ pc' = Set(pc, b, "unlocked:c")
  /\ UNCHANGED <<wAlive, rAlive, total, left, cancelled, fail, winIn, winOut, nmove, wgot, closed,
                 never, egot, calls, after, errd, mvars, cpc, order>>
T_UnlC(b) ==
  /\ pc[b] = "unlocked:c"
  /\ pc' = Set(pc, b, IF Kind(b) = "sink" THEN "rc:wi" ELSE "lock:p")
  /\ UNCHANGED <<svars, gvars, winIn, winOut, nmove, wgot, closed, never, egot, notified,
                 calls, after, errd, mvars, cpc, order>>

T_LockP(b) ==      \* produce(n)
  /\ pc[b] = "lock:p"
  /\ used' = Set(used, Out(b), used[Out(b)] + nmove[b])
  /\ left' = IF Kind(b) = "src"
             THEN (IF total = Inf /\ left - nmove[b] = 0 THEN RepLen ELSE left - nmove[b])
             ELSE left
  /\ notified' = NotifyOn(Out(b))
  /\ pc' = Set(pc, b, "unlocked:p")
  /\ UNCHANGED <<wAlive, rAlive, total, got, cancelled, fail, winIn, winOut, nmove, wgot, closed,
                 never, egot, calls, after, errd, mvars, cpc, order>>
T_UnlP(b) ==       \* work() returns EOF (source finished) or Again
  /\ pc[b] = "unlocked:p"
  /\ pc' = Set(pc, b, IF Kind(b) = "src" /\ left = 0 THEN ExitPc(b) ELSE Again(b))
  /\ UNCHANGED <<svars, gvars, winIn, winOut, nmove, wgot, closed, never, egot, notified,
                 calls, after, errd, mvars, cpc, order>>

(* stream.wait(1) on the input ("wi") or output ("wo") stream.              *)
Avail(b, w) == IF w = "wi" THEN used[In(b)] ELSE Cap - used[Out(b)]
PeerGone(b, w) == IF w = "wi" THEN ~wAlive[In(b)] ELSE ~rAlive[Out(b)]

T_WaitRc(b, w) ==
  /\ pc[b] = "rc:" \o w
  /\ closed' = Set(closed, b, PeerGone(b, w)) /\ pc' = Set(pc, b, "lock:" \o w)
  /\ UNCHANGED <<svars, gvars, winIn, winOut, nmove, wgot, never, egot, notified,
                 calls, after, errd, mvars, cpc, order>>
T_WaitLock(b, w) ==
  /\ pc[b] = "lock:" \o w
  /\ IF Avail(b, w) >= 1
     THEN wgot' = Set(wgot, b, Avail(b, w)) /\ pc' = Set(pc, b, "unlocked:" \o w)
     ELSE wgot' = wgot /\ pc' = Set(pc, b, "cvwait:" \o w)
  /\ notified' = Set(notified, b, FALSE)
  /\ UNCHANGED <<svars, gvars, winIn, winOut, nmove, closed, never, egot,
                 calls, after, errd, mvars, cpc, order>>
T_WaitCv(b, w, kind) ==
  /\ pc[b] = "cvwait:" \o w
  /\ kind = "notified" => notified[b]
  /\ IF kind = "timeout" \/ Avail(b, w) >= 1
     THEN wgot' = Set(wgot, b, Avail(b, w)) /\ pc' = Set(pc, b, "unlocked:" \o w)
     ELSE wgot' = wgot /\ pc' = Set(pc, b, "cvwait:" \o w)
  /\ notified' = Set(notified, b, FALSE)
  /\ UNCHANGED <<svars, gvars, winIn, winOut, nmove, closed, never, egot,
                 calls, after, errd, mvars, cpc, order>>
(* wait() returns; then b.eof(): blocks with an input call src.eof(), whose *)
(* first scheduling point is the refcount read; a source has no inputs.     *)
T_WaitUnl(b, w) ==
  /\ pc[b] = "unlocked:" \o w
  /\ LET nv == (wgot[b] < 1 /\ closed[b]) IN
     /\ never' = Set(never, b, nv)
     /\ pc' = Set(pc, b, IF Kind(b) = "src"
                         THEN (IF nv THEN ExitPc(b) ELSE Again(b))
                         ELSE "rc:e")
  /\ UNCHANGED <<svars, gvars, winIn, winOut, nmove, wgot, closed, egot, notified,
                 calls, after, errd, mvars, cpc, order>>

T_EofRc(b) ==
  /\ pc[b] = "rc:e"
  /\ pc' = Set(pc, b, IF wAlive[In(b)] THEN Decide(b, FALSE) ELSE "lock:e")
  /\ UNCHANGED <<svars, gvars, winIn, winOut, nmove, wgot, closed, never, egot, notified,
                 calls, after, errd, mvars, cpc, order>>
T_EofLock(b) ==
  /\ pc[b] = "lock:e"
  /\ egot' = Set(egot, b, used[In(b)]) /\ pc' = Set(pc, b, "unlocked:e")
  /\ UNCHANGED <<svars, gvars, winIn, winOut, nmove, wgot, closed, never, notified,
                 calls, after, errd, mvars, cpc, order>>
T_EofUnl(b) ==
  /\ pc[b] = "unlocked:e"
  /\ pc' = Set(pc, b, Decide(b, egot[b] = 0))
  /\ UNCHANGED <<svars, gvars, winIn, winOut, nmove, wgot, closed, never, egot, notified,
                 calls, after, errd, mvars, cpc, order>>

(* Dropping the block: stream handles in field order, then thread exit.     *)
T_DropR(b) ==
  /\ pc[b] = "drop_read:exit"
  /\ rAlive' = Set(rAlive, In(b), FALSE)
  /\ pc' = Set(pc, b, IF Kind(b) = "sync" THEN "drop_write:exit" ELSE "done")
  /\ UNCHANGED <<used, wAlive, gvars, winIn, winOut, nmove, wgot, closed, never, egot, notified,
                 calls, after, errd, mvars, cpc, order>>
T_DropW(b) ==
  /\ pc[b] = "drop_write:exit"
  /\ wAlive' = Set(wAlive, Out(b), FALSE)
  /\ pc' = Set(pc, b, "done")
  /\ UNCHANGED <<used, rAlive, gvars, winIn, winOut, nmove, wgot, closed, never, egot, notified,
                 calls, after, errd, mvars, cpc, order>>

TNoCv(b) ==
  \/ T_Start(b) \/ T_Loop(b)
  \/ (b > 1 /\ (T_LockR(b) \/ T_UnlR(b) \/ T_LockC(b) \/ T_UnlC(b)))
  \/ (b < N /\ (T_LockW(b) \/ T_UnlW(b) \/ T_LockP(b) \/ T_UnlP(b)))
  \/ (b > 1 /\ (T_WaitRc(b, "wi") \/ T_WaitLock(b, "wi") \/ T_WaitUnl(b, "wi")))
  \/ (b < N /\ (T_WaitRc(b, "wo") \/ T_WaitLock(b, "wo") \/ T_WaitUnl(b, "wo")))
  \/ (b > 1 /\ (T_EofRc(b) \/ T_EofLock(b) \/ T_EofUnl(b) \/ T_DropR(b)))
  \/ (b < N /\ T_DropW(b))
TCv(b, kind) ==
  \/ (b > 1 /\ T_WaitCv(b, "wi", kind))
  \/ (b < N /\ T_WaitCv(b, "wo", kind))
TNext(b) == TNoCv(b) \/ TCv(b, "timeout") \/ TCv(b, "notified")

---------------------------------------------------------------------------
(* Main thread: run().                                                      *)
M_Start ==   \* spawns every block thread (each parks at its start point)
  /\ mpc = "start:main"
  /\ pc' = [b \in Blocks |-> "start:thread"]
  /\ mpc' = "join:main"
  /\ UNCHANGED <<svars, gvars, winIn, winOut, nmove, wgot, closed, never, egot, notified,
                 calls, after, errd, mj, result, cpc, order>>
(* th.join() in add order; enabled once that thread has exited. With quirk  *)
(* join_panics an Err from a thread makes run() panic at that join.         *)
M_Join ==
  /\ mpc = "join:main" /\ pc[order[mj]] = "done"
  /\ LET b == order[mj] IN
     IF errd[b] /\ "join_panics" \in Quirks
     THEN mpc' = "returned" /\ result' = "panic" /\ mj' = mj
     ELSE LET r == IF errd[b] /\ result = "-" THEN "err" ELSE result IN
          IF mj = N
          THEN mpc' = "returned" /\ mj' = mj /\ result' = (IF r = "-" THEN "ok" ELSE r)
          ELSE mpc' = "join:main" /\ mj' = mj + 1 /\ result' = r
  /\ UNCHANGED <<svars, gvars, tvars, cpc, order>>

C_Cancel ==
  /\ cpc = "start" /\ cancelled' = TRUE /\ cpc' = "done"
  /\ UNCHANGED <<svars, total, left, got, fail, tvars, mvars, order>>

Next == (\E b \in Blocks : TNext(b)) \/ M_Start \/ M_Join \/ C_Cancel

Fairness == /\ \A b \in Blocks : WF_vars(TNext(b))
            /\ WF_vars(M_Start \/ M_Join)
Spec == Init /\ [][Next]_vars /\ Fairness

---------------------------------------------------------------------------
Returned == mpc = "returned"
AllExited == Returned /\ result # "panic" => \A b \in Blocks : pc[b] = "done"
(* C05 *)
ResultRight == (Returned /\ ~cancelled /\ fail = <<0, 0>>) => (got = total /\ result = "ok")
Terminates == <>Returned
(* C07 *)
CancelBounded == \A b \in Blocks : after[b] <= 1
CancelStops == cancelled ~> Returned
FailIsErr == (Returned /\ fail # <<0, 0>> /\ errd[fail[1]]) => result = "err"
NoPanic == result # "panic"
TypeOK == \A s \in Streams : used[s] \in 0 .. Cap

Inv == AllExited /\ ResultRight /\ CancelBounded /\ FailIsErr /\ NoPanic /\ TypeOK
=============================================================================
