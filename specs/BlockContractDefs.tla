------------------------- MODULE BlockContractDefs -------------------------
(* Contract predicates over one recorded work() call (C09), used by         *)
(* BlockContract (schedule enumeration) and BlockContract_Trace (judging    *)
(* recorded calls).                                                         *)
EXTENDS Integers, Sequences, FiniteSets, TLC

(* Contract predicates over one recorded work() call `w`:                   *)
(*   w.avail[i], w.space[j]  before the call                                *)
(*   w.consumed[i], w.produced[j], w.verdict, w.rc_same                     *)

(* C09.1: never more than the windows offered.                              *)
WithinWindows(w, pktIn, pktOut) ==
  /\ \A i \in 1 .. Len(w.consumed) :
       pktIn[i] \/ (w.consumed[i] >= 0 /\ w.consumed[i] <= w.avail[i])
  /\ \A j \in 1 .. Len(w.produced) :
       pktOut[j] \/ (w.produced[j] >= 0 /\ w.produced[j] <= w.space[j])

(* C09.2: no stream window is still held after the call returned.           *)
NoLeakedWindow(w) == w.rc_same = TRUE

Moved(w) == (\E i \in 1 .. Len(w.consumed) : w.consumed[i] # 0)
            \/ (\E j \in 1 .. Len(w.produced) : w.produced[j] # 0)

(* No panic and no error caused by how the data was chunked.                *)
NoCrash(w) == w.verdict.kind \notin {"panic"}

(* C09.3: after the environment provided exactly what a wait verdict asked  *)
(* for, the next call makes progress or reports something else (another     *)
(* stream, another amount, EOF).                                            *)
SameWait(v1, v2) == /\ v1.kind = "wait" /\ v2.kind = "wait" /\ v1.side = v2.side /\ v1.idx = v2.idx
                    /\ v1.need = v2.need
ProbeAnswered(before, after) == Moved(after) \/ ~SameWait(before.verdict, after.verdict)

(* C09.4: `Again` without movement at most MaxSpin times in a row.          *)
MaxSpin == 3
=============================================================================
