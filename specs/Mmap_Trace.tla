----------------------------- MODULE Mmap_Trace -----------------------------
(* Judges a system call trace (strace of `vh mmap-run`, converted to ndjson *)
(* with addresses projected to (region id, page offset)) against Mmap.      *)
(* Lengths and offsets are in units of `unit` bytes given per event.        *)
(* Besides the accounting, every call is one step of the protocol design    *)
(* MmapProto (one model thread per buffer slot, sizes normalised to one     *)
(* model page, slot k placed at model pages 2k, 2k+1): a creation or a drop *)
(* may only issue the calls of its protocol path, in order, on the ranges   *)
(* the design says. Labels proto_*.                                         *)
EXTENDS Mmap, Json, IOUtils, TLCExt
VARIABLE l
Rec == ndJsonDeserialize(IOEnv.TRACE)
Slots == {Rec[i].slot : i \in {j \in 1 .. Len(Rec) : Rec[j].ev = "begin"}}
MaxSlot == IF Slots = {} THEN 1 ELSE CHOOSE m \in Slots : \A x \in Slots : x <= m
VARIABLES mem, pc, base, sz, fdopen, res, bad
P == INSTANCE MmapProto WITH Pages <- 2 * MaxSlot + 2, Threads <- Slots, Sizes <- {1}, Foreign <- 0, Quirks <- {}
pv == <<mem, pc, base, sz, fdopen, res, bad>>
TraceInit == Init /\ P!PInit /\ l = 1
Chk(p, label) == IF p THEN TRUE ELSE PrintT("CHECK-FAILED " \o ToString(l) \o " " \o label)
Same == UNCHANGED vars
(* The protocol step for a call of the current bracket: `ok` is the guard   *)
(* of the protocol action, `act` the action; a call the design does not     *)
(* allow here is reported and leaves the protocol state alone.              *)
Proto(ok, act, label) == IF ok THEN act ELSE Chk(FALSE, label) /\ UNCHANGED pv
T == cur.slot
InOp == cur.op # "none" /\ T \in Slots
ProtoEv(e) ==
  IF ~InOp THEN UNCHANGED pv
  ELSE IF e.call = "openat" THEN
       IF e.ret >= 0 THEN Proto(cur.op = "new" /\ pc[T] = "idle" /\ res[T] = "-", P!Open(T, 1), "proto_unexpected_open") ELSE UNCHANGED pv
  ELSE IF e.call = "ftruncate" THEN
       IF pc[T] = "trunc" THEN Chk(e.len = 2 * cur.size, "proto_range") /\ P!Trunc(T)
       ELSE Proto(pc[T] = "shrink", Chk(e.len = cur.size, "proto_range") /\ P!Shrink(T), "proto_unexpected_ftruncate")
  ELSE IF e.call = "mmap" /\ ~e.fixed THEN
       IF e.ok THEN Proto(pc[T] = "map1" /\ mem[2 * T] = 0 /\ mem[2 * T + 1] = 0,
                          Chk(e.len = 2 * cur.size, "proto_range") /\ P!Map1Ok(T, 2 * T), "proto_unexpected_mmap")
       ELSE Proto(pc[T] = "map1", P!Map1Fail(T), "proto_unexpected_mmap")
  ELSE IF e.call = "mmap" THEN
       IF e.ok THEN Proto(pc[T] = "map2", Chk(e.off = cur.size /\ e.len = cur.size, "proto_range") /\ P!Map2Ok(T), "proto_unexpected_mmap_fixed")
       ELSE Proto(pc[T] = "map2", P!Map2Fail(T), "proto_unexpected_mmap_fixed")
  ELSE IF e.call = "munmap" THEN
       IF pc[T] = "unmap_err" THEN Chk(e.off = 0 /\ e.len = 2 * cur.size, "proto_range") /\ P!UnmapErr(T)
       ELSE IF pc[T] = "ready" /\ cur.op = "drop" THEN Chk(e.off = 0 /\ e.len = cur.size, "proto_range") /\ P!Drop1(T)
       ELSE Proto(pc[T] = "drop2", Chk(e.off = cur.size /\ e.len = cur.size, "proto_range") /\ P!Drop2(T), "proto_unexpected_munmap")
  ELSE IF e.call = "close" THEN
       IF pc[T] = "close_err" THEN P!CloseErr(T)
       ELSE Proto(pc[T] = "close", P!Close(T), "proto_unexpected_close")
  ELSE UNCHANGED pv

Ev(e) ==
  IF e.ev = "begin" THEN
       /\ cur' = [op |-> e.op, slot |-> e.slot, before |-> parts, um |-> FALSE, size |-> e.size]
       /\ Chk(fds = {}, "fd_open_across_ops")
       /\ UNCHANGED <<parts, fds, owner>>
  ELSE IF e.ev = "sys" /\ e.call = "openat" THEN
       /\ fds' = IF e.ret >= 0 THEN fds \cup {e.ret} ELSE fds
       /\ UNCHANGED <<parts, owner, cur>>
  ELSE IF e.ev = "sys" /\ e.call = "close" THEN
       /\ fds' = fds \ {e.fd} /\ UNCHANGED <<parts, owner, cur>>
  ELSE IF e.ev = "sys" /\ e.call = "ftruncate" THEN Same
  ELSE IF e.ev = "sys" /\ e.call = "mmap" THEN
       IF e.ok
       THEN /\ MapAt(e.r, e.off, e.len, e.fd, e.foff) /\ UNCHANGED <<fds, owner, cur>>
            /\ Chk(e.fd \in fds, "mmap_unknown_fd")
       ELSE Same
  ELSE IF e.ev = "sys" /\ e.call = "munmap" THEN
       /\ Chk(e.r >= 0 /\ Covered(e.r, e.off, e.len), "munmap_not_live")
       /\ IF e.r >= 0 THEN UnmapAt(e.r, e.off, e.len) ELSE parts' = parts
       /\ cur' = [cur EXCEPT !.um = TRUE]
       /\ UNCHANGED <<fds, owner>>
  ELSE IF e.ev = "end" /\ e.op = "new" THEN
       /\ Chk(fds = {}, "fd_leak")
       \* the protocol path taken agrees with what the caller was told
       /\ Chk(e.slot \notin Slots \/ ((e.result = "ok") <=> (pc[e.slot] = "ready")), "proto_result")
       /\ Chk(e.slot \notin Slots \/ e.result = "ok" \/ pc[e.slot] = "idle", "proto_unfinished")
       /\ Chk(P!PInv, "proto_invariant")
       \* a stream that cannot be set up is reported as an error
       /\ Chk(e.result = "ok" => (e.size > 0 /\ e.size % 4096 = 0 /\ e.elem > 0 /\ e.size % e.elem = 0), "bad_size_accepted")
       /\ IF e.result = "ok"
          THEN /\ Chk(\E r \in {p.r : p \in parts \ cur.before} : TwoHalves(r, e.size), "halves_not_aliased")
               \* the reserved range is never given up during a successful set-up: a hole could
               \* be taken by another thread's mapping and then be overwritten by MAP_FIXED
               /\ Chk(~cur.um, "hole_during_setup")
               /\ owner' = [s \in DOMAIN owner \cup {e.slot} |->
                               IF s = e.slot THEN (IF parts \ cur.before = {} THEN -1 ELSE (CHOOSE p \in parts \ cur.before : TRUE).r)
                               ELSE owner[s]]
          ELSE /\ Chk(parts = cur.before, "mapping_left_after_failed_new")
               /\ Chk(e.result = "err", "new_panicked")
               /\ owner' = owner
       /\ cur' = [op |-> "none", slot |-> 0, before |-> {}, um |-> FALSE, size |-> 0]
       /\ UNCHANGED <<parts, fds>>
  ELSE IF e.ev = "end" /\ e.op = "drop" THEN
       /\ Chk(e.slot \notin Slots \/ pc[e.slot] \in {"gone", "idle"}, "proto_unfinished")
       /\ Chk(P!PInv, "proto_invariant")
       /\ Chk(e.slot \notin DOMAIN owner \/ {p \in parts : p.r = owner[e.slot]} = {}, "mapping_left_after_drop")
       /\ Chk(fds = {}, "fd_leak")
       /\ cur' = [op |-> "none", slot |-> 0, before |-> {}, um |-> FALSE, size |-> 0]
       /\ UNCHANGED <<parts, fds, owner>>
  ELSE IF e.ev = "quiet" THEN
       /\ Chk(parts = {}, "mappings_at_quiescence")
       /\ Chk(fds = {}, "fds_at_quiescence")
       /\ Chk(e.maps = 0, "proc_maps_at_quiescence")
       /\ Chk(e.fds = e.base_fds, "proc_fds_at_quiescence")
       /\ Same
  ELSE IF e.ev = "alias" THEN
       /\ Chk(e.read = e.wrote, "alias_mismatch") /\ Same
  ELSE Same

TraceNext ==
  /\ l <= Len(Rec) /\ Ev(Rec[l]) /\ l' = l + 1
  /\ IF Rec[l].ev = "sys" THEN ProtoEv(Rec[l]) ELSE UNCHANGED pv
TraceSpec == TraceInit /\ [][TraceNext]_<<vars, pv, l>>
TraceAccepted ==
  LET d == TLCGet("stats").diameter IN
  IF d - 1 = Len(Rec) THEN TRUE ELSE PrintT("TRACE-REJECTED at event " \o ToString(d)) /\ FALSE
=============================================================================
