----------------------------- MODULE Mmap_Trace -----------------------------
(* Judges a system call trace (strace of `vh mmap-run`, converted to ndjson *)
(* with addresses projected to (region id, page offset)) against Mmap.      *)
(* Lengths and offsets are in units of `unit` bytes given per event.        *)
EXTENDS Mmap, Json, IOUtils, TLCExt
VARIABLE l
Rec == ndJsonDeserialize(IOEnv.TRACE)
TraceInit == Init /\ l = 1
Chk(p, label) == IF p THEN TRUE ELSE PrintT("CHECK-FAILED " \o ToString(l) \o " " \o label)
Same == UNCHANGED vars

Ev(e) ==
  IF e.ev = "begin" THEN
       /\ cur' = [op |-> e.op, slot |-> e.slot, before |-> parts, um |-> FALSE]
       /\ Chk(fds = {}, "fd_open_across_ops")
       /\ UNCHANGED <<parts, fds, owner>>
  ELSE IF e.ev = "sys" /\ e.call = "openat" THEN
       /\ fds' = IF e.ret >= 0 THEN fds \cup {e.ret} ELSE fds
       /\ UNCHANGED <<parts, owner, cur>>
  ELSE IF e.ev = "sys" /\ e.call = "close" THEN
       /\ fds' = fds \ {e.fd} /\ UNCHANGED <<parts, owner, cur>>
  ELSE IF e.ev = "sys" /\ e.call = "ftruncate" THEN Same
  ELSE IF e.ev = "sys" /\ e.call = "mmap" THEN
       IF e.ok
       THEN /\ MapAt(e.r, e.off, e.len, e.fd, e.foff) /\ UNCHANGED <<fds, owner, cur>>
            /\ Chk(e.fd \in fds, "mmap_unknown_fd")
       ELSE Same
  ELSE IF e.ev = "sys" /\ e.call = "munmap" THEN
       /\ Chk(e.r >= 0 /\ Covered(e.r, e.off, e.len), "munmap_not_live")
       /\ IF e.r >= 0 THEN UnmapAt(e.r, e.off, e.len) ELSE parts' = parts
       /\ cur' = [cur EXCEPT !.um = TRUE]
       /\ UNCHANGED <<fds, owner>>
  ELSE IF e.ev = "end" /\ e.op = "new" THEN
       /\ Chk(fds = {}, "fd_leak")
       \* a stream that cannot be set up is reported as an error
       /\ Chk(e.result = "ok" => (e.size > 0 /\ e.size % 4096 = 0 /\ e.size % e.elem = 0), "bad_size_accepted")
       /\ IF e.result = "ok"
          THEN /\ Chk(\E r \in {p.r : p \in parts \ cur.before} : TwoHalves(r, e.size), "halves_not_aliased")
               \* the reserved range is never given up during a successful set-up: a hole could
               \* be taken by another thread's mapping and then be overwritten by MAP_FIXED
               /\ Chk(~cur.um, "hole_during_setup")
               /\ owner' = [s \in DOMAIN owner \cup {e.slot} |->
                               IF s = e.slot THEN (IF parts \ cur.before = {} THEN -1 ELSE (CHOOSE p \in parts \ cur.before : TRUE).r)
                               ELSE owner[s]]
          ELSE /\ Chk(parts = cur.before, "mapping_left_after_failed_new")
               /\ Chk(e.result = "err", "new_panicked")
               /\ owner' = owner
       /\ cur' = [op |-> "none", slot |-> 0, before |-> {}, um |-> FALSE]
       /\ UNCHANGED <<parts, fds>>
  ELSE IF e.ev = "end" /\ e.op = "drop" THEN
       /\ Chk(e.slot \notin DOMAIN owner \/ {p \in parts : p.r = owner[e.slot]} = {}, "mapping_left_after_drop")
       /\ Chk(fds = {}, "fd_leak")
       /\ cur' = [op |-> "none", slot |-> 0, before |-> {}, um |-> FALSE]
       /\ UNCHANGED <<parts, fds, owner>>
  ELSE IF e.ev = "quiet" THEN
       /\ Chk(parts = {}, "mappings_at_quiescence")
       /\ Chk(fds = {}, "fds_at_quiescence")
       /\ Chk(e.maps = 0, "proc_maps_at_quiescence")
       /\ Chk(e.fds = e.base_fds, "proc_fds_at_quiescence")
       /\ Same
  ELSE IF e.ev = "alias" THEN
       /\ Chk(e.read = e.wrote, "alias_mismatch") /\ Same
  ELSE Same

TraceNext == l <= Len(Rec) /\ Ev(Rec[l]) /\ l' = l + 1
TraceSpec == TraceInit /\ [][TraceNext]_<<vars, l>>
TraceAccepted ==
  LET d == TLCGet("stats").diameter IN
  IF d - 1 = Len(Rec) THEN TRUE ELSE PrintT("TRACE-REJECTED at event " \o ToString(d)) /\ FALSE
=============================================================================
