-------------------------- MODULE NCStream_Trace --------------------------
(* Trace validation for NCStream; same record format as StreamMT_Trace.    *)
EXTENDS NCStream, Json, IOUtils, TLCExt

VARIABLE l
Rec == ndJsonDeserialize(IOEnv.TRACE)
tvars == <<vars, l>>
TraceInit == Init /\ l = 1
Kinds(s) == [i \in 1 .. Len(s.evs) |-> s.evs[i].ev]

PStep(s) ==
  \/ s.pt = "start" /\ P_Start /\ Kinds(s) = <<>>
  \/ /\ s.pt = "cmd" /\ ppc = "cmd"
     /\ \/ s.cmd.op = "push" /\ P_CmdPush /\ Kinds(s) = <<"call">> /\ s.evs[1].op = "nc_push"
        \/ s.cmd.op = "closed" /\ P_CmdClosed /\ Kinds(s) = <<>>
        \/ s.cmd.op = "drop" /\ P_CmdDrop /\ Kinds(s) = <<>>
  \/ s.pt = "lock" /\ P_LockPush /\ Kinds(s) = <<>>
  \/ s.pt = "unlocked" /\ P_UnlPush /\ Kinds(s) = <<"ret">> /\ s.evs[1].op = "push"
  \/ /\ s.pt = "rc" /\ P_RcClosed /\ Kinds(s) = <<"ret">> /\ s.evs[1].op = "closed"
     /\ s.evs[1].never = (pret' = "never")
  \/ s.pt = "drop_write" /\ P_Drop /\ Kinds(s) = <<"drop">> /\ s.evs[1].side = "w"

CStep(s) ==
  \/ s.pt = "start" /\ C_Start /\ Kinds(s) = <<>>
  \/ /\ s.pt = "cmd" /\ cpc = "cmd"
     /\ \/ s.cmd.op = "pop" /\ C_CmdPop /\ Kinds(s) = <<"call">> /\ s.evs[1].op = "nc_pop"
        \/ s.cmd.op = "wait" /\ C_CmdWait(s.cmd.need) /\ Kinds(s) = <<"call">> /\ s.evs[1].op = "nc_wait"
        \/ s.cmd.op = "eof" /\ C_CmdEof /\ Kinds(s) = <<"call">> /\ s.evs[1].op = "nc_eof"
        \/ s.cmd.op = "drop" /\ C_CmdDrop /\ Kinds(s) = <<>>
  \/ /\ s.pt = "lock"
     /\ \/ C_LockPop /\ Kinds(s) = <<>>
        \/ C_LockWait /\ Kinds(s) = (IF cpc' = "unlocked:wait" THEN <<"cvret">> ELSE <<>>)
        \/ C_LockEof /\ Kinds(s) = <<>>
  \/ /\ s.pt = "cvwait" /\ C_CvWait(s.g)
     /\ Kinds(s) = (IF cpc' = "unlocked:wait" THEN <<"cvret">> ELSE <<>>)
  \/ /\ s.pt = "unlocked"
     /\ \/ /\ C_UnlPop /\ Kinds(s) = <<"ret", "ret">>
           /\ s.evs[1].some = (cgot # 0) /\ s.evs[2].op = "pop" /\ s.evs[2].id = cgot
        \/ /\ C_UnlWait /\ Kinds(s) = <<"ret">> /\ s.evs[1].op = "wait"
           /\ s.evs[1].never = (cret = "never")
        \/ /\ C_UnlEof /\ Kinds(s) = <<"ret">> /\ s.evs[1].op = "eof"
           /\ s.evs[1].eof = (cret' = "eof")
  \/ s.pt = "rc" /\ C_RcEof /\ Kinds(s) = <<>>
  \/ s.pt = "drop_read" /\ C_Drop /\ Kinds(s) = <<"drop">> /\ s.evs[1].side = "r"

Reset(s) ==
  /\ s.pt = "reset"
  /\ q' = <<>> /\ pushed' = 0 /\ popped' = 0 /\ wAlive' = TRUE /\ rAlive' = TRUE
  /\ ppc' = "start" /\ pcalls' = 0 /\ pret' = NoRet
  /\ cpc' = "start" /\ carg' = 0 /\ cgot' = 0 /\ cclosed' = FALSE /\ cret' = NoRet /\ ccalls' = 0
  /\ notified' = FALSE /\ lateFalse' = 0 /\ started' = FALSE /\ order' = TRUE

(* No lost wakeups: the popper has a notification on offer exactly when the model says so. *)
NotifiedAgree(s) == ("nf" \in DOMAIN s) => (notified = ("C" \in {s.nf[i] : i \in 1 .. Len(s.nf)}))
TraceNext ==
  /\ l <= Len(Rec)
  /\ LET s == Rec[l] IN Reset(s) \/ (s.t = "P" /\ NotifiedAgree(s) /\ PStep(s)) \/ (s.t = "C" /\ NotifiedAgree(s) /\ CStep(s))
  /\ l' = l + 1
TraceSpec == TraceInit /\ [][TraceNext]_tvars
TraceAccepted ==
  LET d == TLCGet("stats").diameter IN
  IF d - 1 = Len(Rec) THEN TRUE
  ELSE /\ PrintT("TRACE-REJECTED at event " \o ToString(d) \o " " \o
                 (IF d <= Len(Rec) THEN ToJson(Rec[d]) ELSE "end"))
       /\ FALSE
=============================================================================
