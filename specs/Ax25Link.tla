------------------------------ MODULE Ax25Link ------------------------------
(* End-to-end AX.25 reception (C20).                                        *)
(* (1) The digital back end of both documented receive chains composes to   *)
(*     the identity on frames:                                              *)
(*        Deframe . Descramble . NrziDecode . NrziEncode . Scramble . Frame  *)
(*     (1200 baud: without the scrambler pair), checked by TLC for small    *)
(*     payloads after a flag preamble. (Transmit order NRZI then scrambler  *)
(*     as in common G3RUH modems; the receive chain decodes NRZI first -    *)
(*     both are shift-invariant GF(2) maps and commute after a transient of *)
(*     18 bits, hence a preamble of at least 4 flags on the model.)         *)
(* (2) The whole receive chain, analog front end included, is a reliable,   *)
(*     ordered, exactly-once frame channel: Transmit(f) ... Deliver(f).     *)
(*     The front end (Hilbert, FM demodulation, filters, clock recovery) is *)
(*     floating-point DSP and is not modelled: the real chain is bound to   *)
(*     the channel specification as a black box (Ax25Link_Trace).           *)
EXTENDS Integers, Sequences, FiniteSets, TLC
H == INSTANCE Hdlc
F == INSTANCE BlockFns

(* transmitter side, written from the protocol definitions *)
RECURSIVE NrziEncFrom(_, _, _)
NrziEncFrom(bits, k, cur) ==
  IF k > Len(bits) THEN <<>>
  ELSE LET c == IF bits[k] = 0 THEN 1 - cur ELSE cur IN <<c>> \o NrziEncFrom(bits, k + 1, c)
NrziEncode(bits) == NrziEncFrom(bits, 1, 0)
RECURSIVE ScrFrom(_, _, _)
ScrFrom(bits, k, out) ==
  IF k > Len(bits) THEN out
  ELSE LET a == IF k > 12 THEN out[k - 12] ELSE 0
           c == IF k > 17 THEN out[k - 17] ELSE 0
       IN ScrFrom(bits, k + 1, Append(out, (bits[k] + a + c) % 2))
Scramble(bits) == ScrFrom(bits, 1, <<>>)
RECURSIVE Flags(_)
Flags(n) == IF n = 0 THEN <<>> ELSE H!Flag \o Flags(n - 1)
Wire(p1, p2, pre) == Flags(pre) \o H!Body(p1) \o Flags(2) \o H!Body(p2) \o Flags(3)

Cfg == [min |-> 2, max |-> 40, check |-> TRUE, fix |-> FALSE]
G3ruh == [mask |-> 33, seed |-> 0, len |-> 16]
Rx1200(bits) == H!Deframe(Cfg, F!Nrzi(<<>>, <<NrziEncode(bits)>>)[1])
Rx9600(bits) == H!Deframe(Cfg, F!Descramble(G3ruh, <<F!Nrzi(<<>>, <<Scramble(NrziEncode(bits))>>)[1]>>)[1])

CONSTANTS Alphabet, MaxLen
VARIABLES sc, stage
Payloads == UNION {[1 .. n -> Alphabet] : n \in 1 .. MaxLen}
Init == sc = [p1 |-> <<>>, p2 |-> <<>>, pre |-> 4] /\ stage = 0
Next == \/ stage = 0 /\ stage' = 1 /\ \E a \in Payloads : sc' = [sc EXCEPT !.p1 = a]
        \/ stage = 1 /\ stage' = 2 /\ \E b \in Payloads : \E n \in {4, 5} : sc' = [sc EXCEPT !.p2 = b, !.pre = n]
Spec == Init /\ [][Next]_<<sc, stage>>
BackEndIdentity ==
  stage < 2 \/ LET w == Wire(sc.p1, sc.p2, sc.pre) IN
               /\ Rx1200(w) = <<sc.p1, sc.p2>>
               /\ Rx9600(w) = <<sc.p1, sc.p2>>
=============================================================================
