CONSTANTS
  Cap = 2
  MaxTotal = 6
  MaxTags = 2
  Quirks = {}
SPECIFICATION Spec
INVARIANT Inv
PROPERTY TagsOnConsume
PROPERTY RefusalKeeps
CHECK_DEADLOCK FALSE
