--------------------------- MODULE MTGraph_Trace ---------------------------
(* Trace validation for MTGraph: one line per grant of the controlled      *)
(* scheduler while the real MTGraph::run executes real blocks:             *)
(*   [t |-> "main" | "canc" | "b", b |-> block number, pt |-> point kind,   *)
(*    g |-> grant, evs |-> events emitted during the step,                 *)
(*    exited |-> the thread finished during the step]                      *)
EXTENDS MTGraph, Json, IOUtils, TLCExt

VARIABLES l, sid      \* trace position; stream ids (mutex ids) of this run
Rec == ndJsonDeserialize(IOEnv.TRACE)
trvars == <<vars, l, sid>>

TraceInit ==
  /\ l = 1 /\ sid = <<>>
  /\ used = [s \in Streams |-> 0]
  /\ wAlive = [s \in Streams |-> TRUE] /\ rAlive = [s \in Streams |-> TRUE]
  /\ total = 0 /\ left = 0 /\ got = 0 /\ cancelled = FALSE /\ fail = <<0, 0>>
  /\ pc = [b \in Blocks |-> "done"]
  /\ winIn = [b \in Blocks |-> 0] /\ winOut = [b \in Blocks |-> 0]
  /\ nmove = [b \in Blocks |-> 0] /\ wgot = [b \in Blocks |-> 0]
  /\ closed = [b \in Blocks |-> FALSE] /\ never = [b \in Blocks |-> FALSE]
  /\ egot = [b \in Blocks |-> 0] /\ notified = [b \in Blocks |-> FALSE]
  /\ calls = [b \in Blocks |-> 0] /\ after = [b \in Blocks |-> 0]
  /\ errd = [b \in Blocks |-> FALSE]
  /\ mpc = "returned" /\ mj = 1 /\ result = "ok" /\ cpc = "none"
  /\ order = [i \in 1 .. N |-> i]

Config(s) ==
  /\ s.pt = "config" /\ s.n = N /\ s.cap = Cap
  /\ sid' = s.streams
  /\ used' = [x \in Streams |-> 0]
  /\ wAlive' = [x \in Streams |-> TRUE] /\ rAlive' = [x \in Streams |-> TRUE]
  /\ total' = s.total /\ left' = (IF s.total = Inf THEN RepLen ELSE s.total) /\ got' = 0 /\ cancelled' = FALSE
  /\ fail' = <<s.fail[1], s.fail[2]>>
  /\ pc' = [b \in Blocks |-> "unborn"]
  /\ winIn' = [b \in Blocks |-> 0] /\ winOut' = [b \in Blocks |-> 0]
  /\ nmove' = [b \in Blocks |-> 0] /\ wgot' = [b \in Blocks |-> 0]
  /\ closed' = [b \in Blocks |-> FALSE] /\ never' = [b \in Blocks |-> FALSE]
  /\ egot' = [b \in Blocks |-> 0] /\ notified' = [b \in Blocks |-> FALSE]
  /\ calls' = [b \in Blocks |-> 0] /\ after' = [b \in Blocks |-> 0]
  /\ errd' = [b \in Blocks |-> FALSE]
  /\ mpc' = "start:main" /\ mj' = 1 /\ result' = "-"
  /\ cpc' = IF s.cancel THEN "start" ELSE "none"
  /\ order' = s.order

(* Stream index of a mutex id. *)
SIdx(m) == CHOOSE x \in Streams : sid[x] = m
RingEvs == {"acqr", "acqw", "produce", "consume"}

EvsOk(s, b) ==
  \A i \in 1 .. Len(s.evs) :
    LET e == s.evs[i] IN
    /\ e.ev \in RingEvs =>
         /\ \E x \in Streams : sid[x] = e.m
         /\ e.used = used'[SIdx(e.m)]
    /\ e.ev = "mt_work" =>
         /\ e.ret = "WaitForStream" => pc'[b] \in {"rc:wi", "rc:wo"}
         /\ e.ret = "Again" => pc'[b] \in {"loop:top", ExitPc(b)}
         /\ e.ret = "EOF" => pc'[b] = ExitPc(b)
    /\ e.ev = "mt_wait" => e.never = never'[b]

HasEv(s, name) == \E i \in 1 .. Len(s.evs) : s.evs[i].ev = name

BStep(s) ==
  LET b == s.b IN
  /\ b \in Blocks /\ PtOf(pc[b]) = s.pt
  /\ IF s.pt = "cvwait" THEN TCv(b, s.g) ELSE TNoCv(b)
  /\ s.pt \in {"lock", "unlocked"} /\ pc'[b] \in {"rc:wi", "rc:wo"} => HasEv(s, "mt_work")
  /\ EvsOk(s, b)
  /\ s.exited = (pc'[b] = "done")

MStep(s) ==
  \/ s.pt = "start" /\ M_Start /\ s.exited = FALSE
  \/ /\ s.pt = "join" /\ M_Join
     /\ IF mpc' = "returned"
        THEN /\ HasEv(s, "mt_return")
             /\ \A i \in 1 .. Len(s.evs) : s.evs[i].ev = "mt_return" => s.evs[i].outcome = result'
        ELSE ~HasEv(s, "mt_return")

(* After every thread has finished the harness reads the sink.              *)
FinalStep(s) ==
  /\ s.pt = "final" /\ mpc = "returned"
  /\ \A b \in Blocks : pc[b] = "done"
  /\ (total = Inf \/ s.got = got) /\ s.prefix_ok = TRUE
  /\ UNCHANGED vars

(* No lost wakeups: the block threads with a notification on offer in the   *)
(* implementation are exactly the waiting threads the model has notified.   *)
NotifiedAgree(s) ==
  ("nf" \in DOMAIN s) =>
     {b \in Blocks : notified[b] /\ PtOf(pc[b]) = "cvwait"} = {s.nf[i] : i \in 1 .. Len(s.nf)}
TraceNext ==
  /\ l <= Len(Rec)
  /\ (\/ Rec[l].pt = "config" \/ NotifiedAgree(Rec[l]))
  /\ LET s == Rec[l] IN
       \/ Config(s)
       \/ (FinalStep(s) /\ UNCHANGED sid)
       \/ (s.t = "b" /\ BStep(s) /\ UNCHANGED sid)
       \/ (s.t = "main" /\ MStep(s) /\ UNCHANGED sid)
       \/ (s.t = "canc" /\ s.pt = "start" /\ C_Cancel /\ UNCHANGED sid)
  /\ l' = l + 1
TraceSpec == TraceInit /\ [][TraceNext]_trvars

TraceAccepted ==
  LET d == TLCGet("stats").diameter IN
  IF d - 1 = Len(Rec) THEN TRUE
  ELSE /\ PrintT("TRACE-REJECTED at event " \o ToString(d) \o " " \o
                 (IF d <= Len(Rec) THEN ToJson(Rec[d]) ELSE "end"))
       /\ FALSE
=============================================================================
