------------------------------ MODULE MC_Graph ------------------------------
(* Configurations for Graph: chain sets, and export of terminal behaviours  *)
(* (configuration + expected outcome) for replay on the real Graph::run.    *)
EXTENDS Graph, Json

ChainsSmall == { <<"src_eof", "sink">>, <<"src_wait", "sink">>, <<"src_pending", "sink">>,
                 <<"src_pending", "sync", "sink">>,
                 <<"src_eof", "sync", "sink">>, <<"src_eof", "mover_wait", "sink">>,
                 <<"src_eof", "dec2_wait", "sink">>, <<"src_wait", "sync", "sink">> }
ChainsBig == ChainsSmall \cup
               { <<"src_eof", "sync", "sync", "sink">>,
                 <<"src_eof", "sync", "mover_wait", "sink">>,
                 <<"src_eof", "dec2_wait", "sync", "sink">>,
                 <<"src_eof", "mover_wait", "dec2_wait", "sink">>,
                 <<"src_wait", "mover_wait", "sync", "sink">> }
NoFail == {}
Fail3 == {<<b, k>> : b \in 1 .. 4, k \in 1 .. 3}

(* One line per terminal state: the configuration and what run() must have  *)
(* produced. Printed from an invariant so every terminal state is exported. *)
Export ==
  returned => PrintT(<<"RUN", ToJson([kinds |-> kinds, order |-> order, total |-> total,
                                       got |-> got, q |-> q, left |-> left, err |-> err,
                                       cancelled |-> cancelled, fail |-> fail,
                                       calls |-> calls])>>)
=============================================================================
