--------------------------- MODULE Ax25Link_Trace ---------------------------
(* The receive chain as a frame channel: within one scenario, the delivered *)
(* frames are exactly the transmitted ones, each once, in order; nothing    *)
(* that was not transmitted is delivered; run() ends normally.              *)
EXTENDS Integers, Sequences, FiniteSets, TLC, Json, IOUtils, TLCExt
VARIABLES l, sent, delivered, hdr
Rec == ndJsonDeserialize(IOEnv.TRACE)
TraceInit == l = 1 /\ sent = <<>> /\ delivered = <<>> /\ hdr = [id |-> "-"]
Chk(p, label) == IF p THEN TRUE ELSE PrintT("CHECK-FAILED " \o ToString(l) \o " " \o label)
Ev(e) ==
  IF e.ev = "scenario" THEN hdr' = e /\ sent' = <<>> /\ delivered' = <<>>
  ELSE IF e.ev = "tx" THEN sent' = Append(sent, e.data) /\ UNCHANGED <<delivered, hdr>>
  ELSE IF e.ev = "rx" THEN
       /\ Chk(\E k \in 1 .. Len(sent) : sent[k] = e.data, "delivered_not_transmitted")
       \* Deliver(f) is enabled only for the next undelivered transmitted frame
       /\ Chk(Len(delivered) < Len(sent) /\ e.data = sent[Len(delivered) + 1], "not_next_frame")
       /\ delivered' = Append(delivered, e.data) /\ UNCHANGED <<sent, hdr>>
  ELSE \* done
       /\ Chk(e.outcome = "ok", "run_failed")
       /\ Chk(delivered = sent, "frames_lost")
       /\ UNCHANGED <<sent, delivered, hdr>>
TraceNext == l <= Len(Rec) /\ Ev(Rec[l]) /\ l' = l + 1
TraceSpec == TraceInit /\ [][TraceNext]_<<l, sent, delivered, hdr>>
TraceAccepted ==
  LET d == TLCGet("stats").diameter IN
  IF d - 1 = Len(Rec) THEN TRUE ELSE PrintT("TRACE-REJECTED at event " \o ToString(d)) /\ FALSE
=============================================================================
